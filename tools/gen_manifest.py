#!/venv/bin/python
"""Regenerates /verif/MANIFEST.json (kept as a script so the manifest stays consistent)."""
import json, os, sys

PY = "/venv/bin/python"
CLAIMED = {
    "C02": dict(
        category="exploration",
        text="Seeded search over (structure x which-optimum-the-solver-returns x back-end): for every knotted "
             "structure the simulated solver enumerates all optimal solutions of the MILP rnapolis emitted and "
             "plays each back through the API seam, and one each through the real PULP_CBC_CMD and HiGHS_CMD "
             "wrappers with a simulated solver process, plus the real CBC binary on a sample; an independent "
             "exact optimiser over proper level assignments judges the returned notation. Includes every "
             "matching on <= 8 (quick) / <= 10 (thorough) positions and every nesting/crossing topology of <= 4 / <= 5 "
             "stems; near-ladders whose optimum needs two-digit levels (real CBC); molecules of up to 110 stems; histories "
             "on one object and after an earlier failure in the same process; the notation of derived objects; near-tie knots "
             "at genome size; every constructor; log verbosity off/INFO/DEBUG; simulated solvers that act on a gap "
             "tolerance or a work limit when the code requests one. Evidence, not proof: inputs are sampled.",
        design_ref="DESIGN.md section 3 (C02), 2.3-2.5",
        note="Trusted: the reference optimiser and the exact 0-1 solver in /verif/sim (cross-checked against the "
             "real CBC binary on every run, per solve, by optimal value), pulp 3.1.1 as installed. The exact oracle is "
             "bounded by the size of one connected component of the conflict graph (about 13 mutually crossing stems).",
        technique="deterministic simulation: solver tie-break and back-end behind a seam, seeded search, reference-model oracle",
    ),
    "C12": dict(
        category="exploration",
        text="Seeded call histories (<= 6 quick, <= 8 thorough) over a pool of live BpSeq objects that may alias "
             "each other, checked step by step against fresh objects built from each object's birth triples "
             "(refinement against a trivial reference model), with frame checks on every pool member after "
             "every step, independent spec clauses for every query and both removals (never re-running the code "
             "under test), sibling originals with the same sequence or the same pairs, objects rebuilt from an answer of another object, "
             "conversions with a solver that breaks ties another way, log verbosity and constructors drawn per history, "
             "and every run in a forked child. A separate fault-injecting configuration (solver failures inside calls) "
             "judges purity proper under faults with a narrowly relaxed oracle.",
        design_ref="DESIGN.md section 3 (C12)",
        note="Trusted: the reference decoders in /verif/sim/oracles.py. Call sequences, not threads: the library "
             "promises no thread safety and the property quantifies over histories.",
        technique="deterministic simulation: seeded operation histories vs. reference model, stepwise refinement check",
    ),
    "C13": dict(
        category="fault_enumeration",
        text="The complete fault catalogue (API level: raise before / after a partial result / late, after status Optimal "
             "and none, some or all values were recorded; each non-optimal "
             "status with untouched / partial / full stale values; real CBC wrapper with simulated process: not "
             "executable, exit code, missing solution file, Infeasible, Integer infeasible, Unbounded, Stopped "
             "with/without incumbent, unknown status word; real HiGHS wrapper likewise; no solver at all; real "
             "CBC binary; HiGHS vanishing between look-up and execution; fail-once-then-work and work-once-then-fail plans within one request; three shapes of the "
             "exception; a second back-end with its own behaviour in the default-solver slot) is enumerated for each seeded knotted structure, through both BpSeq.dot_bracket "
             "(solver selection code) and convert_to_dot_bracket(solver); plus seeded histories of 1-12 solves "
             "in one simulated world (one process, persistent solver objects) with independent faults and every consumer "
             "of the notation: elements, both removals, Mapping2D3D.dot_bracket / extended_dot_bracket and "
             "annotator.extract_secondary_structure on the knotted corpus structures (every extended row must encode "
             "the pairs it encodes in a healthy world). When only some solves of a request delivered, the answer must be "
             "first-come-first-served or optimal, never a mixture.",
        design_ref="DESIGN.md section 3 (C13), 2.4",
        note="Trusted: pulp 3.1.1 wrappers as installed; simulated CBC/HiGHS output formats are as faithful as "
             "pulp's readers require; the HiGHS binary is always the stub. Structures and histories sampled.",
        technique="deterministic simulation with fault injection at the solver seams, catalogue enumerated per structure",
    ),
    "C14": dict(
        category="exploration",
        text="The interpreter is the nondeterminism source: fresh interpreters under different PYTHONHASHSEED values "
             "(12 quick / 32 thorough incl. 'random' on the whole workload, 16 / 48 more on its light part) each compute "
             "every output kind for the corpus, the package's other command-line tools, generated structures, the adapter on "
             "generated conflicting annotations, the unifier on generated conflicting copies, library-level writers, derived "
             "PDB inputs (alternate locations, twin chains, insertion codes, models, modified and protonated residues) and "
             "two-residue fragments under coordinate fuzzing, twice "
             "in-process, each interpreter visiting its items in its own seeded order; all digests of one (input, "
             "output kind) must agree. Interpreters also differ in log verbosity and wall-clock date; commands are run again "
             "into the same directory. Differences that need what ran before in the process are replayed as whole "
             "interpreter contexts. A listing of all dot-brackets of a ten-stem knotted group (10! orderings) is computed "
             "by interpreters of its own alongside.",
        design_ref="DESIGN.md section 3 (C14)",
        note="Trusted: sha256. Object-address-dependent hashing is sampled by the same fresh interpreters but cannot "
             "be steered. A 2-element hash-ordered set escapes K seeds with probability 2^-(K-1).",
        technique="deterministic simulation: hash-seed configurations in fresh interpreters, digest comparison",
    ),
}
NA = {
    "C01": "pure function of the structure (over: inputs); no schedule, fault, peer or state to simulate; the solver-dependent encoder is covered under C13's lossless clause",
    "C03": "pure geometry over one immutable input; no environment, fault, history or configuration in the statement",
    "C04": "for-all-residue-pairs statement about a pure function of coordinates; nothing for a simulator to control",
    "C05": "metamorphic relation between inputs (rigid motions, relabelings, format); order sensitivity is input-driven, not environment-driven",
    "C06": "pure function of (structure, pair list, flag); its only environment dependence (the solver) is C13's subject",
    "C07": "index arithmetic over one BPSEQ; input-only",
    "C08": "stated over well-formed files; no I/O fault, truncation or concurrent writer is quantified",
    "C09": "pure text <-> table functions; the temp-file bridge is an implementation detail no clause conditions on",
    "C10": "pure function of the atom table",
    "C11": "invariants of a pure function's output",
    "C15": "differential statement between two pure readers over generated inputs",
    "C16": "set-level combinatorics of a pure function (over: inputs)",
    "C17": "pure function; its 'configurations' are five boolean arguments, i.e. input",
    "C18": "pure numeric function of four points",
    "C19": "totality over malformed input text; no environment fault is quantified",
    "C20": "pure string -> string functions and a one-shot CLI; no fault or schedule in the statement",
}

def main():
    present = [p for p in sorted(CLAIMED) if os.path.exists("/verif/sim/engine_%s.py" % p.lower())]
    checks = []
    for p in present:
        c = CLAIMED[p]
        checks.append({
            "property_id": p,
            "quick_cmd": "timeout 900 %s /verif/simcheck.py --property %s --tier quick" % (PY, p),
            "thorough_cmd": "timeout 10800 %s /verif/simcheck.py --property %s --tier thorough" % (PY, p),
            "evidence_file": "/verif/evidence/%s.json" % p,
            "replay_cmd_template": "%s /verif/simcheck.py --replay {path}" % PY,
            "engine": "simcheck",
            "level_claimed": {"category": c["category"], "text": c["text"], "design_ref": c["design_ref"]},
            "level_note": c["note"],
            "technique": c["technique"],
        })
    na = [{"property_id": k, "reason": v} for k, v in sorted(NA.items())]
    for p in sorted(CLAIMED):
        if p not in present:
            na.append({"property_id": p, "reason": "check not built yet (planned: see DESIGN.md)"})
    doc = {
        "version": 1,
        "setup_cmd": "timeout 1800 %s /verif/simcheck.py --selftest" % PY,
        "hooks": {
            "guard": "RNAPOLIS_VERIF",
            "enable": "no hook in /repo is needed: every seam is a module attribute, constructor argument or environment variable (the guard name is reserved but unused)",
            "baseline_off_cmd": "cd /repo && /venv/bin/python -m pytest -ra -q -p no:cacheprovider --timeout=900 --continue-on-collection-errors",
            "source_commits": [],
            "add_only": True,
        },
        "engines": [{
            "name": "simcheck", "path": "/verif/simcheck.py", "serves_properties": present,
            "kind_free_text": "deterministic simulation with fault injection: seeded scheduler over solver behaviour, call histories and interpreter hash seeds; in-process fakes for the solver process, PATH and uuid",
        }],
        "checks": checks,
        "not_applicable": sorted(na, key=lambda d: d["property_id"]),
        "notes": "VERIF_SEED selects the exploration; VERIF_BUDGET_S overrides the thorough budget (default 600 s per property); exit 2 + HARNESS-ERROR = machinery problem (never a pass, never a violation). Repairs of genuine defects are 'fix:' commits in /repo, listed in /verif/known-findings.txt.",
    }
    with open("/verif/MANIFEST.json", "w") as f:
        json.dump(doc, f, indent=1)
        f.write("\n")
    print("claimed:", present)

main()
