#!/venv/bin/python
"""Sensitivity harness: applies small source mutants (or a patch file) to a scratch copy of /repo/src
under /dev/shm and runs the quick check of the property they target against that copy.

    tools/mutants.py                    all built-in mutants
    tools/mutants.py m_c02_noorder ...  selected ones
    tools/mutants.py --patch FILE --property C13 [--tier quick]   a patch made with `git diff -- src`
    tools/mutants.py --seeded           every /verif/seeded/<id>/patch.diff against the property in its meta.json
    tools/mutants.py --benign [C02,C13] every /verif/benign/<id>/patch<k>.diff (behaviour-preserving refactorings written
                                        by sub-agents) against the given properties (default: all four); here the
                                        expected outcome is exit 0 - QUIET - and anything else is a false alarm

Nothing is written into /repo or into /verif/evidence, /verif/replays: outputs go to the scratch directory,
which is removed afterwards.  Exit code 0 when every mutant was detected (check exit 1), 1 otherwise.
"""
import json
import os
import shutil
import subprocess
import sys
import tempfile
import time

VERIF = os.path.dirname(os.path.dirname(os.path.abspath(__file__)))
REPO = "/repo"
C = "rnapolis/common.py"
A = "rnapolis/annotator.py"

MUTANTS = [
    # id, property, file, old, new
    ("m_c12_shallow", "C12", C,
     "        entries = [\n            Entry(entry.index_, entry.sequence, entry.pair) for entry in self.entries\n        ]\n",
     "        entries = self.entries.copy()\n"),
    ("m_c12_db_inplace", "C12", C,
     '        structure = re.sub(r"[\\[\\]\\{\\}\\<\\>A-Za-z]", ".", self.structure)\n        return DotBracket(self.sequence, structure)',
     '        self.structure = re.sub(r"[\\[\\]\\{\\}\\<\\>A-Za-z]", ".", self.structure)\n        self.__post_init__()\n        return self'),
    ("m_c12_iso_len2", "C12", C,
     "            if stem.strand5p.first == stem.strand5p.last:\n                to_unpair.append(stem.strand5p.first - 1)",
     "            if stem.strand5p.last - stem.strand5p.first <= 1 and stem.strand5p.first % 7 == 0:\n                to_unpair.append(stem.strand5p.first - 1)"),
    ("m_c12_elements_pop", "C12", C,
     "        stops = sorted(stopset)\n",
     "        stops = sorted(stopset)\n        if len(self.entries) > 9 and self.entries[-1].pair == 0:\n            self.entries.pop()\n"),
    ("m_c12_seqcache", "C12", C,
     ["@dataclass\nclass BpSeq:\n",
      "    @cached_property\n    def dot_bracket(self):\n        if pulp.HiGHS_CMD().available():"],
     ["_DOT_BRACKET_CACHE = {}\n\n\n@dataclass\nclass BpSeq:\n",
      "    @cached_property\n    def dot_bracket(self):\n        key = self.sequence\n        if key not in _DOT_BRACKET_CACHE:\n"
      "            _DOT_BRACKET_CACHE[key] = self._dot_bracket()\n        return _DOT_BRACKET_CACHE[key]\n\n"
      "    def _dot_bracket(self):\n        if pulp.HiGHS_CMD().available():"]),
    ("m_c12_regioncache", "C12", C,
     ["@dataclass\nclass BpSeq:\n",
      "        structure = \"\".join(structure)\n        return DotBracket.from_string(sequence, structure)"],
     ["_RENDER_CACHE = {}\n\n\n@dataclass\nclass BpSeq:\n",
      "        structure = \"\".join(structure)\n        key = (len(sequence), tuple(regions), tuple(orders) if isinstance(orders, list) else None)\n"
      "        if key not in _RENDER_CACHE:\n            _RENDER_CACHE[key] = DotBracket.from_string(sequence, structure)\n        return _RENDER_CACHE[key]"]),
    ("m_c12_failure_path_edits_entries", "C12", C,
     "        except pulp.PulpSolverError:\n            logging.warning(\n                \"POA: failed to solve problem using MILP approach, fallback to FCFS\"\n            )\n            return self.fcfs",
     "        except pulp.PulpSolverError:\n            logging.warning(\n                \"POA: failed to solve problem using MILP approach, fallback to FCFS\"\n            )\n            # 'simplify and carry on': drop the last base pair of the structure\n            last = max((e for e in self.entries if e.pair), key=lambda e: e.index_, default=None)\n            if last is not None:\n                self.entries[last.pair - 1].pair = 0\n                last.pair = 0\n            return self.fcfs"),
    ("m_c13_fcfs_call_none", "C13", C,
     "        if solver is None:\n            return self.fcfs\n", "        if solver is None:\n            return self.fcfs()\n"),
    ("m_c13_fcfs_call_status", "C13", C,
     'fallback to FCFS")\n            return self.fcfs\n\n        # log solver',
     'fallback to FCFS")\n            return self.fcfs()\n\n        # log solver'),
    ("m_c13_except", "C13", C, "        except pulp.PulpSolverError:", "        except ValueError:"),
    ("m_c13_exc_args", "C13", C, "        except pulp.PulpSolverError:\n            logging.warning(\n                \"POA: failed to solve problem using MILP approach, fallback to FCFS\"\n            )",
     "        except pulp.PulpSolverError as e:\n            logging.warning(\n                \"POA: failed to solve problem using MILP approach (%s), fallback to FCFS\" % e.args[0]\n            )"),
    ("m_c13_status", "C13", C, "        if problem.status != pulp.LpStatusOptimal:",
     "        if problem.status == pulp.LpStatusInfeasible:"),
    ("m_c13_status_notsolved", "C13", C, "        if problem.status != pulp.LpStatusOptimal:",
     "        if problem.status < 0:"),
    ("m_c13_none", "C13", C, "        if solver is None:\n            return self.fcfs\n", "        pass\n"),
    ("m_c13_msg", "C13", C, "        if solver is not None:\n            solver.msg = False", "        solver.msg = False"),
    ("m_c02_noorder", "C02", C, "terms.append(-1 * var * length * order)", "terms.append(-1 * var * length)"),
    ("m_c02_maxorder", "C02", C, "max_order = max(map(len, graph.values())) + 1", "max_order = max(map(len, graph.values()))"),
    ("m_c02_maxorder_min2", "C02", C, "max_order = max(map(len, graph.values())) + 1",
     "max_order = min(max(map(len, graph.values())) + 1, 3)"),
    ("m_c02_adj0", "C02", C,
     "                for order in range(max_order):\n                    problem += (",
     "                for order in range(1):\n                    problem += ("),
    ("m_c02_readback", "C02", C, "            if variable.varValue == 1:", "            if variable.varValue >= 0:"),
    ("m_c02_conflict", "C02", C,
     "            # is pseudoknot?\n            if (k < m < l < n) or (m < k < n < l):\n                graph[i].add(j)\n                graph[j].add(i)\n\n        # return all",
     "            # is pseudoknot?\n            if (k < m < l) or (m < k < n < l):\n                graph[i].add(j)\n                graph[j].add(i)\n\n        # return all"),
    ("m_c02_brackets", "C02", C, '        brackets = ["()", "[]", "{}", "<>"] + [', '        brackets = ["()", "{}", "[]", "<>"] + ['),
    ("m_c02_len_weight", "C02", C, "                    terms.append(var * length)", "                    terms.append(var)"),
    ("m_c02_sticky_failure", "C02", C,
     ["@dataclass\nclass BpSeq:\n",
      "        # if PuLP solvers are not installed, use FCFS\n        if solver is None:\n            return self.fcfs\n",
      "        except pulp.PulpSolverError:\n"],
     ["_SOLVER_BROKEN = []\n\n\n@dataclass\nclass BpSeq:\n",
      "        # if PuLP solvers are not installed (or failed before), use FCFS\n        if solver is None or _SOLVER_BROKEN:\n            return self.fcfs\n",
      "        except pulp.PulpSolverError:\n            _SOLVER_BROKEN.append(True)\n"]),
    ("m_c02_failure_clears_default", "C02", C,
     "        except pulp.PulpSolverError:\n            logging.warning(",
     "        except pulp.PulpSolverError:\n            pulp.LpSolverDefault = None  # 'do not try a broken solver again'\n            logging.warning("),
    ("m_c13_from_string_upper", "C13", C, "            entry = Entry(int(fields[0]), fields[1], int(fields[2]))",
     "            entry = Entry(int(fields[0]), fields[1].upper(), int(fields[2]))"),
    ("m_c02_twodigit", "C02", C, '                i, order = map(int, name.split("_")[1:])',
     "                i, order = int(name[2]), int(name[-1])"),
    ("m_c02_size_shortcut", "C02", C,
     "        # return all non-pseudoknotted if the graph is empty\n        if not graph:\n            return self.__make_dot_bracket(regions, [0 for _ in range(len(regions))])\n\n        # determine maximum",
     "        # return all non-pseudoknotted if the graph is empty\n        if not graph:\n            return self.__make_dot_bracket(regions, [0 for _ in range(len(regions))])\n        if len(regions) > 40:\n            return self.fcfs  # 'too big for the MILP'\n\n        # determine maximum"),
    ("m_c02_huge_shortcut", "C02", C,
     "        # return all non-pseudoknotted if the graph is empty\n        if not graph:\n            return self.__make_dot_bracket(regions, [0 for _ in range(len(regions))])\n\n        # determine maximum",
     "        # return all non-pseudoknotted if the graph is empty\n        if not graph:\n            return self.__make_dot_bracket(regions, [0 for _ in range(len(regions))])\n        if len(self.entries) > 3000:\n            return self.fcfs  # 'too big for the MILP'\n\n        # determine maximum"),
    ("m_c12_memo_by_id", "C12", C,
     ["@dataclass\nclass BpSeq:\n",
      "    @cached_property\n    def fcfs(self):\n"],
     ["_FCFS_BY_ID = {}\n\n\n@dataclass\nclass BpSeq:\n",
      "    @cached_property\n    def fcfs(self):\n        if id(self) not in _FCFS_BY_ID:\n            _FCFS_BY_ID[id(self)] = self._fcfs()\n        return _FCFS_BY_ID[id(self)]\n\n    def _fcfs(self):\n"]),
    ("m_c12_long_input_memo", "C12", C,
     ["@dataclass\nclass BpSeq:\n",
      "    @cached_property\n    def fcfs(self):\n"],
     ["_LONG_FCFS = {}\n\n\n@dataclass\nclass BpSeq:\n",
      "    @cached_property\n    def fcfs(self):\n        if len(self.entries) > 200:\n            key = (len(self.entries), len(self.pairs))\n            if key not in _LONG_FCFS:\n                _LONG_FCFS[key] = self._fcfs()\n            return _LONG_FCFS[key]\n        return self._fcfs()\n\n    def _fcfs(self):\n"]),
    ("m_c02_order_last_digit", "C02", C, '                i, order = map(int, name.split("_")[1:])',
     '                i, order = int(name.split("_")[1]), int(name.split("_")[2][-1])'),
    ("m_c02_deep_letter_skipped", "C02", C, '"".join(p) for p in zip(string.ascii_uppercase, string.ascii_lowercase)',
     '"".join(p) for p in zip(string.ascii_uppercase.replace("H", ""), string.ascii_lowercase.replace("h", ""))'),
    ("m_c13_twodigit_fcfs", "C13", C, "            order = next(filter(lambda i: available[i] is True, range(len(available))))\n            orders[i] = order\n\n        return self.__make_dot_bracket(regions, orders)",
     "            order = next(filter(lambda i: available[i] is True, range(len(available))))\n            orders[i] = order if i < 10 else 0\n\n        return self.__make_dot_bracket(regions, orders)"),
    ("m_c13_fcfs_10levels", "C13", C, 'available = [True for _ in range(len("([{<" + string.ascii_uppercase))]',
     "available = [True for _ in range(10)]"),
    ("m_c02_letters", "C02", C, '"".join(p) for p in zip(string.ascii_uppercase, string.ascii_lowercase)',
     '"".join(p) for p in zip(string.ascii_uppercase[1:], string.ascii_lowercase[1:])'),
    ("m_c14_coarse_cache", "C14", A,
     "    base_pairs, base_phosphate, base_ribose = find_pairs(tertiary_structure, model)\n    stackings = find_stackings(tertiary_structure, model)\n    return BaseInteractions(base_pairs, stackings, base_ribose, base_phosphate, [])",
     "    key = (len(tertiary_structure.residues), model)\n    if key not in _INTERACTIONS_CACHE:\n        base_pairs, base_phosphate, base_ribose = find_pairs(tertiary_structure, model)\n        stackings = find_stackings(tertiary_structure, model)\n        _INTERACTIONS_CACHE[key] = BaseInteractions(base_pairs, stackings, base_ribose, base_phosphate, [])\n    return _INTERACTIONS_CACHE[key]\n\n\n_INTERACTIONS_CACHE = {}"),
    ("m_c14_idorder", "C14", C,
     "        return sorted(solutions, key=lambda dot_bracket: dot_bracket.structure)", "        return sorted(solutions, key=id)"),
    ("m_c14_listset", "C14", C,
     "        return sorted(solutions, key=lambda dot_bracket: dot_bracket.structure)", "        return list(solutions)"),
    ("m_c14_csvset", "C14", A,
     "        for base_pair in structure2d.baseInteractions.basePairs:\n            writer.writerow(",
     "        for base_pair in set(structure2d.baseInteractions.basePairs):\n            writer.writerow("),
    ("m_c14_datestamp", "C14", A,
     '        writer.writerow(["nt1", "nt2", "type", "classification-1", "classification-2"])\n        for base_pair in structure2d.baseInteractions.basePairs:',
     '        import datetime\n\n        writer.writerow(["nt1", "nt2", "type", "classification-1", "classification-" + datetime.date.today().strftime("2 (%Y-%m)")])\n        for base_pair in structure2d.baseInteractions.basePairs:'),
    ("m_c14_bphset", "C14", A,
     "    bph_map = merge_and_clean_bph_br(sorted(base_phosphate_pairs))", "    bph_map = merge_and_clean_bph_br(list(set(base_phosphate_pairs)))"),
    ("m_c14_brset", "C14", A,
     "    br_map = merge_and_clean_bph_br(sorted(base_ribose_pairs))", "    br_map = merge_and_clean_bph_br(list(set(base_ribose_pairs)))"),
    ("m_c14_stackset", "C14", A,
     "    for residue_i, residue_j, topology in sorted(pairs):", "    for residue_i, residue_j, topology in set(pairs):"),
    ("m_c14_bpset", "C14", A,
     "    for residue_i, residue_j, lw in sorted(base_base_pairs):", "    for residue_i, residue_j, lw in set(base_base_pairs):"),
    # session 5: the integrality of the model is a property of the *emitted* problem and of the solver's options
    ("m_c02_lp_relaxation", "C02", C, 'pulp.LpVariable(f"x_{i}_{j}", 0, 1, pulp.LpInteger)',
     'pulp.LpVariable(f"x_{i}_{j}", 0, 1, pulp.LpContinuous)'),
    ("m_c13_mip_false", "C13", C, "            solver.msg = False\n        return self.convert",
     "            solver.msg = False\n            solver.mip = False\n        return self.convert"),
]


def run_check(prop, src, scratch, tier="quick", seed=None):
    env = dict(os.environ)
    env["VERIF_REPO_SRC"] = src
    env["VERIF_REPLAY_DIR"] = os.path.join(scratch, "replays")
    env["VERIF_EVIDENCE_DIR"] = os.path.join(scratch, "evidence")
    if seed is not None:
        env["VERIF_SEED"] = str(seed)
    t0 = time.time()
    p = subprocess.run(["/venv/bin/python", os.path.join(VERIF, "simcheck.py"), "--property", prop, "--tier", tier],
                       capture_output=True, text=True, env=env, timeout=3600)
    lines = [l for l in p.stdout.splitlines() if l.startswith(("VIOLATION", "  clause", "HARNESS-ERROR", "KNOWN"))]
    return p.returncode, lines, time.time() - t0, p.stdout[-1500:] + p.stderr[-1500:]


def scratch_copy():
    root = "/dev/shm" if os.path.isdir("/dev/shm") else None
    d = tempfile.mkdtemp(prefix="rnapolis-mut-", dir=root)
    shutil.copytree(os.path.join(REPO, "src"), os.path.join(d, "src"))
    # tests are needed by the C14 corpus (TESTS is derived from the src path)
    os.symlink(os.path.join(REPO, "tests"), os.path.join(d, "tests"))
    return d


def apply_mutant(d, rel, old, new):
    path = os.path.join(d, "src", rel)
    with open(path) as f:
        s = f.read()
    olds, news = (old, new) if isinstance(old, list) else ([old], [new])
    for o, n in zip(olds, news):
        if s.count(o) != 1:
            raise SystemExit("mutant anchor occurs %d times in %s: %r" % (s.count(o), rel, o[:60]))
        s = s.replace(o, n)
    with open(path, "w") as f:
        f.write(s)


def main(argv):
    results = []
    if "--patch" in argv:
        patch = argv[argv.index("--patch") + 1]
        props = argv[argv.index("--property") + 1].split(",")
        tier = argv[argv.index("--tier") + 1] if "--tier" in argv else "quick"
        jobs = [("patch:" + os.path.basename(os.path.dirname(os.path.abspath(patch))), p, patch, tier) for p in props]
    elif "--benign" in argv:
        k = argv.index("--benign")
        props = argv[k + 1].split(",") if len(argv) > k + 1 and argv[k + 1].startswith("C") else ["C02", "C12", "C13", "C14"]
        jobs = []
        base = os.path.join(VERIF, "benign")
        only = os.environ.get("BENIGN_ONLY", "").split(",") if os.environ.get("BENIGN_ONLY") else None
        for name in sorted(os.listdir(base)) if os.path.isdir(base) else []:
            if only and name not in only:
                continue
            for f in sorted(os.listdir(os.path.join(base, name))):
                if f.endswith(".diff"):
                    for p in props:
                        jobs.append(("benign:%s/%s" % (name, f[:-5]), p, os.path.join(base, name, f), "quick"))
    elif "--seeded" in argv:
        jobs = []
        base = os.path.join(VERIF, "seeded")
        for name in sorted(os.listdir(base)) if os.path.isdir(base) else []:
            meta = os.path.join(base, name, "meta.json")
            if os.path.exists(meta):
                with open(meta) as f:
                    m = json.load(f)
                tag = "outofscope:" if m.get("detected_by", {}).get("not_claimed_because") else ""
                jobs.append((tag + name, m["property"], os.path.join(base, name, "patch.diff"), m.get("tier", "quick")))
    else:
        want = [a for a in argv if not a.startswith("-")]
        jobs = [(m[0], m[1], m, "quick") for m in MUTANTS if not want or m[0] in want]
    ok = True
    for name, prop, what, tier in jobs:
        d = scratch_copy()
        try:
            if isinstance(what, tuple):
                apply_mutant(d, what[2], what[3], what[4])
            else:
                subprocess.run(["git", "apply", os.path.abspath(what)], cwd=d, check=True)
            rc, lines, wall, tail = run_check(prop, os.path.join(d, "src"), d, tier)
            detected = rc == 1
            benign = name.startswith("benign:")
            if name.startswith("outofscope:"):
                # a change that only misbehaves outside what the property quantifies over (see its meta.json): whatever
                # the check says is recorded, nothing is expected
                print("%-28s %s rc=%d %5.1fs %s" % (name, prop, rc, wall, "NOT-CLAIMED (outside the property's quantifier)"))
                continue
            ok = ok and (rc == 0 if benign else detected)
            clause = [l.strip() for l in lines if l.startswith("  clause")][:1]
            verdict = ("QUIET" if rc == 0 else "FALSE-ALARM" if rc == 1 else "HARNESS-ERROR") if benign else ("DETECTED" if detected else "MISSED")
            print("%-28s %s rc=%d %5.1fs %s %s" % (name, prop, rc, wall, verdict, clause[0][:150] if clause else ""))
            if rc == 2:
                print(tail)
            sys.stdout.flush()
            results.append({"mutant": name, "property": prop, "rc": rc, "detected": detected, "wall_s": round(wall, 1)})
        finally:
            shutil.rmtree(d, ignore_errors=True)
    return 0 if ok else 1


if __name__ == "__main__":
    sys.exit(main(sys.argv[1:]))
