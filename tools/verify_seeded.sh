#!/bin/bash
# verify_seeded.sh <id> <worktree>: confirm a sub-agent's seeded change in its scratch worktree:
#  demo fails with the change, passes without it, and the baseline suite still has 45 passes / the 7 known failures.
id=$1; wt=$2
out=/verif/seeded/$id
mkdir -p $out
cp $wt/_seeded/patch.diff $wt/_seeded/demo.py $out/ 2>/dev/null
[ -f $wt/_seeded/notes.md ] && cp $wt/_seeded/notes.md $out/agent_notes.md
cd $wt
git diff -- src > /tmp/verify-$id.diff
cmp -s /tmp/verify-$id.diff $out/patch.diff && echo "$id patch.diff matches worktree diff" || echo "$id WARNING patch.diff differs from worktree diff"
PYTHONPATH=$wt/src timeout 900 /venv/bin/python $wt/_seeded/demo.py > /tmp/verify-$id.demo_with.txt 2>&1; rc_with=$?
git apply -R $out/patch.diff
PYTHONPATH=$wt/src timeout 900 /venv/bin/python $wt/_seeded/demo.py > /tmp/verify-$id.demo_without.txt 2>&1; rc_without=$?
git apply $out/patch.diff
PYTHONPATH=$wt/src timeout 1800 /venv/bin/python -m pytest -q -p no:cacheprovider --timeout=900 tests > /tmp/verify-$id.tests.txt 2>&1
summary=$(tail -1 /tmp/verify-$id.tests.txt)
failed=$(grep -c "^FAILED" /tmp/verify-$id.tests.txt)
echo "$id demo_with_change_rc=$rc_with demo_without_change_rc=$rc_without tests: $summary (FAILED lines: $failed)"
grep "^FAILED" /tmp/verify-$id.tests.txt | sed 's/ - .*//' | sort > /tmp/verify-$id.failed.txt
