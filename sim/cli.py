"""check / replay / selftest drivers."""
import json
import os
import subprocess
import sys
import time

from . import runner

SIM_PROPS = ["C02", "C12", "C13"]


def _seed():
    return int(os.environ.get("VERIF_SEED", "0") or 0)


def _workers():
    return int(os.environ.get("VERIF_WORKERS", "0") or 0) or min(16, os.cpu_count() or 1)


def harness_error(msg):
    print("HARNESS-ERROR: %s" % msg)
    sys.stdout.flush()
    return 2


def check(prop, tier, runs_override=None):
    seed = _seed()
    print("VERIF_SEED=%d property=%s tier=%s workers=%d" % (seed, prop, tier, _workers()))
    sys.stdout.flush()
    import logging

    logging.disable(logging.CRITICAL)
    eng = runner.get_engine(prop)
    if hasattr(eng, "check"):
        return eng.check(tier, seed, _workers())
    t0 = time.time()
    plan = eng.PLAN[tier]
    total = eng.total_runs(tier) if hasattr(eng, "total_runs") else (
        None if plan.get("histories") is None else plan["catalogue"] + plan["histories"])
    if runs_override is not None:
        total = runs_override
    budget = os.environ.get("VERIF_BUDGET_S")
    budget = float(budget) if budget else plan.get("budget")
    try:
        results = runner.run_pool(prop, tier, seed, total, plan["chunk"], _workers(), budget)
    except runner.Harness as e:
        return harness_error(str(e))
    tmpdir = runner.worker_tmp()
    # determinism spot check on every run of the check: re-execute a sample in this process
    sample = [r for r in results if r["index"] % 37 == 0][:24]
    spot_mismatch = None
    runner.preload(eng, tier)
    for r in sample:
        if r.get("pyopt"):
            # a run whose world is an interpreter started with -O is re-executed in one
            again = runner.in_optimised_interpreter(("run_index", prop, seed, tier, r["index"]))
        else:
            again = runner.isolated(eng.run_index, seed, tier, r["index"], tmpdir)
        if again["digest"] != r["digest"]:
            if any(x.get("violations") for x in results):
                # the tree violates the property AND executes differently when the same run is repeated (answers that
                # follow object addresses, say): the violations are reported - each must still replay in a fresh
                # interpreter - and the mismatch is put on record
                spot_mismatch = "run %d: %s vs %s" % (r["index"], r["digest"][:16], again["digest"][:16])
                break
            return harness_error("non-deterministic run: property=%s seed=%d run=%d digests %s vs %s"
                                 % (prop, seed, r["index"], r["digest"][:16], again["digest"][:16]))
    coverage = eng.coverage_doc(results, tier)
    coverage["determinism_spot_check"] = {"runs_re_executed": len(sample), "mismatches": 1 if spot_mismatch else 0}
    if spot_mismatch:
        coverage["determinism_spot_check"]["mismatch_on_a_violating_tree"] = spot_mismatch
    missing = [k for k in getattr(eng, "REQUIRED_FIRED", []) if not coverage.get("fault_kinds_fired", {}).get(k)]
    new, herr = runner.report(prop, tier, seed, eng, results, tmpdir)
    wall = time.time() - t0
    coverage["runs_per_hour"] = int(len(results) / max(wall, 1e-6) * 3600)
    coverage["seeds"] = {"VERIF_SEED": seed, "first_run_index": 0, "last_run_index": len(results) - 1}
    n_viol = sum(len(r.get("violations", [])) for r in results)
    coverage["violating_runs"] = sum(1 for r in results if r.get("violations"))
    if runner.STOPPED_EARLY:
        coverage["stopped_early"] = "no new runs were started after %d violating runs out of %d finished" % runner.STOPPED_EARLY[0]
    died = sum(n for k, n in coverage.get("fault_kinds_fired", {}).items() if k.startswith("discard."))
    # not a measure of work done (and seed dependent): kept out of the top-level counts
    coverage["discards"] = {"runs_or_steps_not_judged": died, "steps": coverage.pop("discarded_steps", 0),
                            "reasons": "exact stub solver hit its node cap, model outside the stub's class, per-run time limit"}
    runner.write_evidence(prop, tier, seed, eng.LEVEL, coverage, wall, n_viol, eng.ASSUMPTIONS)
    print("runs=%d evaluations=%d distinct_nontrivial=%d wall=%.1fs violations=%d new=%d" % (
        len(results), coverage["evaluations"], coverage["distinct_nontrivial"], wall, n_viol, new))
    if herr:
        return 2
    if new:
        return 1
    if missing:
        return harness_error("fault kinds that never fired: %s" % missing)
    problems = eng.harness_problems(coverage) if hasattr(eng, "harness_problems") else []
    if problems:
        return harness_error("; ".join(problems))
    if coverage["discards"]["steps"] > 0.05 * max(1, coverage["evaluations"]):
        return harness_error("too many discarded steps: %d of %d" % (coverage["discards"]["steps"], coverage["evaluations"]))
    if died > 0.05 * max(1, len(results)):
        return harness_error("too many discarded runs (node cap, unsupported model or per-run time limit): %d of %d" % (died, len(results)))
    return 0


def replay(path):
    with open(path) as f:
        doc = json.load(f)
    prop = doc["property"]
    eng = runner.get_engine(prop)
    import logging

    logging.disable(logging.CRITICAL)
    if hasattr(eng, "replay"):
        return eng.replay(doc, path)
    if doc.get("run", {}).get("pyopt") and not sys.flags.optimize:
        # the violating world is an interpreter started with -O: replay in one
        env = dict(os.environ)
        env["PYTHONHASHSEED"] = "0"
        os.execve(sys.executable, [sys.executable, "-O", os.path.join(runner.VERIF, "simcheck.py"), "--replay", path], env)
    res = eng.execute_run(doc["run"], runner.worker_tmp())
    want = doc["signature"]
    same = [v for v in res["violations"] if v["signature"] == want]
    if not same:
        print("REPLAY-NOT-REPRODUCED property=%s file=%s (violations now: %d)" % (prop, path, len(res["violations"])))
        return 0
    if doc.get("event_digest") and res.get("digest") != doc["event_digest"]:
        print("REPLAY-DIGEST-MISMATCH property=%s file=%s %s vs %s" % (prop, path, res.get("digest"), doc["event_digest"]))
        return 2
    v = same[0]
    print("REPLAY-REPRODUCED property=%s clause=%s digest=%s" % (prop, v["clause"], res.get("digest")))
    print("  expected=%s" % json.dumps(v.get("expected"))[:400])
    print("  actual=%s" % json.dumps(v.get("actual"))[:400])
    print("VIOLATION property=%s replay=%s" % (prop, path))
    return 1


def digests(prop, tier, seed, n):
    """Print the event digest of run indexes 0..n-1 (used by the determinism self-test)."""
    import logging

    logging.disable(logging.CRITICAL)
    eng = runner.get_engine(prop)
    out = []
    runner.preload(eng, tier)
    for i in range(n):
        out.append(runner.isolated(eng.run_index, seed, tier, i, runner.worker_tmp())["digest"])
    return out


def selftest():
    """Determinism: the same seeds executed (a) twice in this process, (b) through the pool with 1 and
    16 workers, (c) in a fresh interpreter under a different PYTHONHASHSEED - all event digests must
    agree.  Also known-answer checks of the stub layers."""
    import logging

    logging.disable(logging.CRITICAL)
    t0 = time.time()
    n = int(os.environ.get("VERIF_SELFTEST_RUNS", "200"))
    problems = []
    for prop in SIM_PROPS:
        try:
            eng = runner.get_engine(prop)
        except ImportError:
            continue
        if hasattr(eng, "check") and not hasattr(eng, "run_index"):
            continue
        a = digests(prop, "quick", 0, n)
        b = digests(prop, "quick", 0, n)
        if a != b:
            problems.append("%s: in-process re-execution differs at %s" % (prop, [i for i in range(n) if a[i] != b[i]][:5]))
        for w in (1, 16):
            res = runner.run_pool(prop, "quick", 0, n, 8, w, None)
            c = [r["digest"] for r in res]
            if c != a:
                problems.append("%s: pool with %d workers differs at %s" % (prop, w, [i for i in range(n) if a[i] != c[i]][:5]))
        env = dict(os.environ)
        env["PYTHONHASHSEED"] = "4242"
        env["VERIF_KEEP_HASHSEED"] = "1"
        p = subprocess.run([sys.executable, os.path.join(runner.VERIF, "simcheck.py"), "--digests", prop, str(n)],
                           capture_output=True, text=True, env=env, timeout=1200)
        d = [line.split()[1] for line in p.stdout.splitlines() if line.startswith("DIGEST ")]
        if d != a:
            problems.append("%s: fresh interpreter under PYTHONHASHSEED=4242 differs (%d digests, rc=%d) %s"
                            % (prop, len(d), p.returncode, p.stderr[-500:]))
        # another VERIF_SEED, fewer runs: in-process twice and an 8-worker pool
        a2 = digests(prop, "quick", 12345, n // 4)
        b2 = digests(prop, "quick", 12345, n // 4)
        c2 = [r["digest"] for r in runner.run_pool(prop, "quick", 12345, n // 4, 5, 8, None)]
        if not (a2 == b2 == c2):
            problems.append("%s: VERIF_SEED=12345 executions differ" % prop)
        if a2[:10] == a[:10]:
            problems.append("%s: VERIF_SEED does not change the exploration" % prop)
        print("selftest %s: %d seeds x (2 in-process + 1-worker pool + 16-worker pool + fresh interpreter), "
              "%d more under another VERIF_SEED x (2 in-process + 8-worker pool) ok=%s"
              % (prop, n, n // 4, not any(x.startswith(prop) for x in problems)))
        sys.stdout.flush()
    for prob in problems:
        print("HARNESS-ERROR: selftest: " + prob)
    print("selftest wall=%.1fs" % (time.time() - t0))
    return 2 if problems else 0
