"""Executor and oracles for materialised *solve runs* (properties C02 and C13).

A run is plain JSON: {"property": ..., "steps": [step, ...]}.  Executing it never touches a PRNG.

step = {
  "triples": [[index, letter, pair], ...],
  "op": "dot_bracket" | "elements" | "without_pseudoknots" | "without_isolated",
  "via": "property" | "argument",
  "backend": "sim-api" | "cbc-wrapper" | "highs-wrapper" | "real-cbc" | "none",
  "highs_on_path": bool, "cbc_executable": bool,
  "fault": {"kind": ..., "assign": ..., "partial": int, "tie": int}
}
"""
from . import events, oracles, rng, zero_one
from .solverseam import HarnessError, SimEnv, SimSolver

_common = None


def common():
    global _common
    if _common is None:
        import rnapolis.common as c

        _common = c
    return _common


ROUTES = ["entries", "entries", "from_string", "from_string_crlf", "from_file", "from_dotbracket", "from_multistrand"]


def make_bpseq(triples, route="entries", tmpdir=None):
    """The structure as a live BpSeq, built through one of the package's constructors: the Entry list directly,
    BPSEQ text (also with CRLF line ends, blank lines and trailing blanks), a BPSEQ file, or a dot-bracket of it
    (the reference first-come-first-served notation).  All routes must give the same object."""
    c = common()
    if route == "entries" or not triples:
        return c.BpSeq([c.Entry(int(i), str(ch), int(j)) for i, ch, j in triples])
    text = "\n".join("%d %s %d" % (i, ch, j) for i, ch, j in triples)
    if route == "from_string":
        return c.BpSeq.from_string(text + "\n")
    if route == "from_string_crlf":
        return c.BpSeq.from_string("\r\n".join("%d %s %d  " % (i, ch, j) for i, ch, j in triples) + "\r\n\r\n")
    if route == "from_file":
        import os
        import tempfile

        fd, path = tempfile.mkstemp(suffix=".bpseq", dir=tmpdir)
        with os.fdopen(fd, "w") as f:
            f.write(text + "\n")
        try:
            return c.BpSeq.from_file(path)
        finally:
            os.unlink(path)
    if route == "from_dotbracket":
        n, pairs = oracles.pairs_of_triples(triples)
        seq = oracles.sequence_of_triples(triples)
        return c.BpSeq.from_dotbracket(c.DotBracket.from_string(seq, oracles.fcfs_ref(n, pairs)))
    if route == "from_multistrand":
        # a two-strand notation of the structure (reference first-come-first-served levels), the chain break placed
        # inside a stem when there is one; the multi-strand reader only knows IUPAC letters
        import re

        n, pairs = oracles.pairs_of_triples(triples)
        seq = oracles.sequence_of_triples(triples)
        if n < 2 or not re.fullmatch(r"[ACGTURYSWKMBDHVNacgturyswkmbdhvn.-]+", seq):
            return c.BpSeq([c.Entry(int(i), str(ch), int(j)) for i, ch, j in triples])
        structure = oracles.fcfs_ref(n, pairs)
        cut = n // 2
        for i, j, length in oracles.stems(pairs):
            if length >= 2:
                cut = i  # between the first two residues of the 5' strand of the first longer stem
                break
        cut = min(max(cut, 1), n - 1)
        text = ">strand_A\n%s\n%s\n>strand_B\n%s\n%s\n" % (seq[:cut], structure[:cut], seq[cut:], structure[cut:])
        return c.BpSeq.from_dotbracket(c.MultiStrandDotBracket.from_string(text))
    raise HarnessError("unknown construction route %r" % route)


_CORPUS = {}
CORPUS_DIR = None


def corpus_dir():
    import os

    src = os.environ.get("VERIF_REPO_SRC", "/repo/src").rstrip("/")
    return os.path.join(os.path.dirname(src), "tests")


def corpus_mapping(name, find_gaps=False):
    """A fresh Mapping2D3D over a corpus file (parsing and 3D annotation cached per process; the mapping
    object itself, which memoises the notation, is new every time)."""
    import os

    from rnapolis import annotator, parser
    from rnapolis.tertiary import Mapping2D3D
    from rnapolis.util import handle_input_file

    if name not in _CORPUS:
        with handle_input_file(os.path.join(corpus_dir(), name)) as fh:
            s3d = parser.read_3d_structure(fh, None)
        bi = annotator.extract_base_interactions(s3d)
        _CORPUS[name] = (s3d, bi.basePairs, bi.stackings)
    s3d, bps, sts = _CORPUS[name]
    return Mapping2D3D(s3d, bps, sts, bool(find_gaps))


_HEALTHY_ROWS = {}


def parse_extended(text, nstrands):
    """Extended dot-bracket text -> [[LW label, row over the whole molecule], ...] (strand blocks concatenated)."""
    lines = text.split("\n")
    block = len(lines) // max(1, nstrands)
    rows = {}
    for b in range(nstrands):
        chunk = lines[b * block:(b + 1) * block]
        for k, line in enumerate(chunk[2:]):
            lw, dbn = line.split(" ", 1)
            rows[k] = (lw, rows.get(k, (lw, ""))[1] + dbn)
    return [[lw, dbn] for _, (lw, dbn) in sorted(rows.items())]


def healthy_rows(env, name, find_gaps=False):
    """Which pairs every row of a corpus structure's extended dot-bracket stands for: decoded from the rows the
    code under test writes in a healthy world (stub solver, no fault).  The pairs of a row do not depend on the
    solver - only the bracket levels do - so under any fault every row must still decode to these pairs.  Computed
    once per process, outside the event log, with the simulated world restored afterwards."""
    name_key = (name, bool(find_gaps))
    if name_key in _HEALTHY_ROWS:
        return _HEALTHY_ROWS[name_key]
    import pulp

    saved = (env.backend, env.highs_on_path, env.cbc_executable, env.faults, env.fault_cursor, env.secondary_fault,
             env.highs_lookups_left, env.uuid_counter, pulp.LpSolverDefault, len(env.solves))
    with events.suspended():
        try:
            solver = env.configure("sim-api", False, True, [{"kind": "ok", "tie": 0}])
            env.set_default(solver)
            m = corpus_mapping(name, find_gaps)
            rows = parse_extended(m.extended_dot_bracket, len(m.strands_sequences))
            out = [[lw, sorted(oracles.decode(row) or [])] for lw, row in rows]
        except (zero_one.NodeCap, zero_one.Unsupported):
            out = None
        except Exception:  # noqa: BLE001 - no reference, no judgement
            out = None
    (env.backend, env.highs_on_path, env.cbc_executable, env.faults, env.fault_cursor, env.secondary_fault,
     env.highs_lookups_left, env.uuid_counter, default, nsolves) = saved
    pulp.LpSolverDefault = default
    del env.solves[nsolves:]
    _HEALTHY_ROWS[name_key] = out
    return out


def db_tuple(db):
    return [getattr(db, "sequence", None), getattr(db, "structure", None)]


def describe_exc(e):
    return "%s: %s" % (type(e).__name__, str(e)[:160])


def execute_step(env, step):
    """Run one step against the real code.  Returns an observation dict (JSON-able)."""
    c = common()
    backend = step.get("backend", "sim-api")
    via = step.get("via", "property")
    op = step.get("op", "dot_bracket")
    fault = dict(step.get("fault") or {"kind": "ok"})
    highs_on_path = bool(step.get("highs_on_path", backend == "highs-wrapper"))
    cbc_exec = bool(step.get("cbc_executable", True))
    if fault.get("kind") == "not_executable":
        if backend == "highs-wrapper":
            highs_on_path = False
        else:
            cbc_exec = False
    if fault.get("kind") == "vanishes_after_lookup":
        # through BpSeq.dot_bracket the first look-up is rnapolis' own HiGHS_CMD().available(); with an explicit
        # solver argument the only look-up is pulp's, just before it would start the process
        fault["lookups"] = 1 if via == "property" else 0
    n_before = len(env.solves)
    # fault_then: what the same back-end does when it is asked again within the step (a transient failure; an
    # independent draw for the later conversions of a consumer that converts several times)
    plan = [fault] + ([dict(step["fault_then"])] if step.get("fault_then") else [])
    solver = env.configure(backend, highs_on_path, cbc_exec, plan)
    if step.get("default_fault"):
        env.secondary_fault = dict(step["default_fault"])
    if via == "property":
        if backend == "highs-wrapper" and highs_on_path:
            # rnapolis builds its own HiGHS_CMD(); the default must then be irrelevant
            want = None if step.get("default", "none") == "none" else env.decoy_solver()
        else:
            want = solver
    else:
        want = None if step.get("default", "none") == "none" else env.decoy_solver()
    # the default-solver slot is process-global state: it is (re)assigned only when the step's world differs from
    # the previous step's.  While the world stays the same, whatever the code under test left in the slot stays
    # there - as in a real process - so a change that clears or swaps the default after a failure is felt by the
    # following conversions.
    spec = ("none" if want is None else type(want).__name__, id(want))
    if getattr(env, "default_spec", None) != spec:
        env.set_default(want)
        env.default_spec = spec
    obs = {"raised": None, "db": None, "consumer": None, "discard": None}
    healthy = None
    if op in ("mapping_extended", "mapping_extract"):
        healthy = healthy_rows(env, step["corpus"], step.get("find_gaps", False))
    if op.startswith("mapping_"):
        mapping = corpus_mapping(step["corpus"], step.get("find_gaps", False))
        bp = mapping.bpseq
        obs["triples"] = [[e.index_, e.sequence, e.pair] for e in bp.entries]
    elif step.get("object"):
        # the same live object across several steps of the run (a history on one object)
        if not hasattr(env, "objects"):
            env.objects = {}
        key = (step["object"], rng.digest(step["triples"])[:12])
        if key not in env.objects:
            env.objects[key] = make_bpseq(step["triples"], step.get("route", "entries"), env.tmpdir)
        bp = env.objects[key]
    else:
        bp = make_bpseq(step["triples"], step.get("route", "entries"), env.tmpdir)
    events.log("op.invoke", [op, via, backend, fault.get("kind")])
    try:
        if op == "mapping_extract":
            # the whole 3D -> 2D entry point (annotator.extract_secondary_structure): it asks for elements, the
            # dot-bracket and the extended dot-bracket of one mapping, i.e. several conversions under the fault
            from rnapolis import annotator

            s2d, dbs = annotator.extract_secondary_structure(mapping.structure3d, None, bool(step.get("find_gaps", False)),
                                                             bool(step.get("all_dot_brackets", False)))
            lines = s2d.dotBracket.split("\n")
            obs["db"] = ["".join(lines[1::3]), "".join(lines[2::3])]
            obs["triples"] = [[int(x.split()[0]), x.split()[1], int(x.split()[2])] for x in s2d.bpseq.split("\n")]
            strands = []
            for st in s2d.stems:
                strands += [st.strand5p, st.strand3p]
            for ss in s2d.singleStrands:
                strands.append(ss.strand)
            for h in s2d.hairpins:
                strands.append(h.strand)
            for l in s2d.loops:
                strands += list(l.strands)
            obs["consumer"] = {"strands": [[x.first, x.last, x.sequence, x.structure] for x in strands]}
            ext = s2d.extendedDotBracket.split("\n")
            nstrands = len(lines) // 3
            block = len(ext) // max(1, nstrands)
            rows = {}
            for b in range(nstrands):
                chunk = ext[b * block:(b + 1) * block]
                for k, line in enumerate(chunk[2:]):
                    lw, dbn = line.split(" ", 1)
                    rows[k] = (lw, rows.get(k, (lw, ""))[1] + dbn)
            obs["consumer"]["extended_rows"] = [[lw, dbn] for _, (lw, dbn) in sorted(rows.items())]
        elif op == "mapping_dot_bracket":
            text = mapping.dot_bracket
            lines = text.split("\n")
            obs["db"] = ["".join(lines[1::3]), "".join(lines[2::3])]
            obs["consumer"] = {"mapping_text_lines": len(lines)}
        elif op == "mapping_extended":
            text = mapping.extended_dot_bracket
            nstrands = len(mapping.strands_sequences)
            per_strand = text.split("\n")
            # every strand block: header, 'seq ...', then one line per (LW class, row)
            block = len(per_strand) // max(1, nstrands)
            rows = {}
            seq = ""
            for b in range(nstrands):
                chunk = per_strand[b * block:(b + 1) * block]
                seq += chunk[1].split(" ", 1)[1]
                for k, line in enumerate(chunk[2:]):
                    lw, dbn = line.split(" ", 1)
                    rows[k] = (lw, rows.get(k, (lw, ""))[1] + dbn)
            obs["db"] = db_tuple(bp.dot_bracket)
            obs["consumer"] = {"extended_rows": [[lw, dbn] for _, (lw, dbn) in sorted(rows.items())], "extended_seq": seq}
        elif op.startswith("derived:"):
            # 'the' notation of an object the library derived from another one (a removal, a rebuild from one of its
            # notations): it has to be optimal for the DERIVED structure, whatever its source had memoised
            how = op.split(":", 1)[1]
            if step.get("warm"):
                bp.dot_bracket
            if how == "without_isolated":
                child = bp.without_isolated()
            elif how == "without_pseudoknots":
                child = bp.without_pseudoknots()
            elif how == "from_fcfs":
                child = c.BpSeq.from_dotbracket(bp.fcfs)
            elif how == "from_listed":
                listed = bp.all_dot_brackets
                child = c.BpSeq.from_dotbracket(listed[len(listed) // 2])
            else:
                raise HarnessError("unknown derivation %r" % how)
            obs["triples"] = [[e.index_, e.sequence, e.pair] for e in child.entries]
            obs["db"] = db_tuple(child.dot_bracket)
        elif via == "argument":
            db = bp.convert_to_dot_bracket(solver)
            obs["db"] = db_tuple(db)
        elif op == "dot_bracket":
            obs["db"] = db_tuple(bp.dot_bracket)
        elif op == "elements":
            stems, singles, hairpins, loops = bp.elements
            strands = []
            for s in stems:
                strands += [s.strand5p, s.strand3p]
            for s in singles:
                strands.append(s.strand)
            for h in hairpins:
                strands.append(h.strand)
            for l in loops:
                strands += list(l.strands)
            obs["db"] = db_tuple(bp.dot_bracket)
            obs["consumer"] = {"strands": [[s.first, s.last, s.sequence, s.structure] for s in strands]}
        elif op == "without_pseudoknots":
            child = bp.without_pseudoknots()
            obs["db"] = db_tuple(bp.dot_bracket)
            obs["consumer"] = {"child": [[e.index_, e.sequence, e.pair] for e in child.entries]}
        elif op == "without_isolated":
            child = bp.without_isolated()
            obs["db"] = db_tuple(bp.dot_bracket)
            obs["consumer"] = {"child": [[e.index_, e.sequence, e.pair] for e in child.entries]}
        else:
            raise HarnessError("unknown op %r" % op)
    except (HarnessError, zero_one.NodeCap, zero_one.Unsupported):
        raise
    except Exception as e:  # noqa: BLE001 - the property says "never raises"
        obs["raised"] = describe_exc(e)
    if healthy is not None and obs.get("consumer") is not None:
        obs["consumer"]["healthy_row_pairs"] = healthy
    obs["solves"] = [dict(s) for s in env.solves[n_before:]]
    events.log("op.return", rng.digest([obs["raised"], obs["db"], obs["consumer"]])[:16])
    return obs


def execute(run, tmpdir):
    """Execute a whole run in one simulated world (one SimEnv: the same process-global solver slot,
    the same temp directory, the same event log).  Returns (observations, event digest, counters)."""
    log = events.reset()
    run_id = rng.digest(run["steps"])[:24]
    observations = []
    with SimEnv(tmpdir, run_id, run.get("loglevel")) as env:
        for step in run["steps"]:
            try:
                observations.append(execute_step(env, step))
            except zero_one.NodeCap:
                observations.append({"discard": "node-cap", "raised": None, "db": None, "consumer": None, "solves": []})
                events.fired("discard.node-cap")
            except zero_one.Unsupported as e:
                observations.append({"discard": "unsupported-model: %s" % e, "raised": None, "db": None, "consumer": None, "solves": []})
                events.fired("discard.unsupported")
        leftovers = env.leftover_files()
    return observations, log.digest(), dict(log.counters), leftovers


# ------------------------------------------------------------------------------------------------
# oracles
# ------------------------------------------------------------------------------------------------


def _violation(k, clause, expected, actual):
    return {"step": k, "clause": clause, "expected": expected, "actual": actual}


def judge_common(k, step, obs, out):
    """Clauses shared by C02 and C13: no exception, lossless.  Returns (n, pairs, seq, ok)."""
    triples = obs.get("triples") or step["triples"]
    n, pairs = oracles.pairs_of_triples(triples)
    seq = oracles.sequence_of_triples(triples)
    if obs["raised"] is not None:
        out.append(_violation(k, "never-raises", "a DotBracket", obs["raised"]))
        return n, pairs, seq, False
    dbseq, dbstr = obs["db"]
    bad = oracles.lossless_problems(seq, n, pairs, dbseq, dbstr)
    for clause in bad:
        out.append(_violation(k, clause, {"sequence": seq, "pairs": sorted(pairs)}, obs["db"]))
    return n, pairs, seq, not bad


def judge_c13(run, observations):
    out = []
    for k, (step, obs) in enumerate(zip(run["steps"], observations)):
        if obs.get("discard") or step.get("probe"):
            continue
        n, pairs, seq, ok = judge_common(k, step, obs, out)
        if not ok:
            continue
        delivered = any(s.get("delivered") for s in obs["solves"])
        structure = obs["db"][1]
        if not delivered:
            want = oracles.fcfs_ref(n, pairs)
            if structure != want:
                out.append(_violation(k, "fcfs-when-not-delivered", want, structure))
        elif not all(s.get("delivered") for s in obs["solves"]) and not any(
                s.get("incumbent") == "suboptimal" for s in obs["solves"]):
            # the solver was asked more than once within the request and failed at least once (a retry, a request solved
            # in parts, a consumer that converts several structures): the answer is first-come-first-served, or - the
            # failure having been made good - an optimal one; never something in between.  (Not judged when one of the
            # solves handed over an unrequested incumbent that pulp labels Optimal: that answer is neither, legitimately.)
            want = oracles.fcfs_ref(n, pairs)
            if structure != want:
                best, _ = optimum_cached(pairs)
                if best is not None and oracles.objective(structure) != best:
                    out.append(_violation(k, "fcfs-or-optimal-when-partly-delivered", want, structure))
        cons = obs.get("consumer")
        if cons and "strands" in cons:
            for first, last, sseq, sstr in cons["strands"]:
                lo, hi = min(first, last), max(first, last)
                if sstr != structure[lo - 1 : hi] or sseq != seq[lo - 1 : hi]:
                    out.append(_violation(k, "elements-consistent-with-notation",
                                          [lo, hi, seq[lo - 1 : hi], structure[lo - 1 : hi]], [first, last, sseq, sstr]))
                    break
        if cons and "extended_rows" in cons and cons.get("healthy_row_pairs"):
            want_rows = cons["healthy_row_pairs"]
            got_rows = cons["extended_rows"]
            if [lw for lw, _ in want_rows] != [lw for lw, _ in got_rows]:
                out.append(_violation(k, "extended-rows-are-the-same-classes", [lw for lw, _ in want_rows], [lw for lw, _ in got_rows]))
            else:
                for (lw, want_pairs), (_, row) in zip(want_rows, got_rows):
                    got = oracles.decode(row) if len(row) == n else None
                    if got is not None and sorted(map(list, got)) != [list(p) for p in want_pairs]:
                        out.append(_violation(k, "extended-row-encodes-the-pairs-of-its-class", [lw, want_pairs], [lw, row]))
                        break
        if cons and "extended_rows" in cons:
            for lw, row in cons["extended_rows"]:
                got = oracles.decode(row) if len(row) == n else None
                if got is None:
                    out.append(_violation(k, "extended-row-is-a-balanced-notation", "balanced, length %d" % n, [lw, row]))
                    break
                if not delivered and row != oracles.fcfs_ref(n, got):
                    out.append(_violation(k, "extended-row-fcfs-when-not-delivered", oracles.fcfs_ref(n, got), [lw, row]))
                    break
        if cons and "child" in cons:
            cn, cpairs = oracles.pairs_of_triples(cons["child"])
            cseq = oracles.sequence_of_triples(cons["child"])
            if step["op"] == "without_pseudoknots":
                want = oracles.pairs_on_round(structure)
                clause = "without_pseudoknots-keeps-round-pairs"
            else:
                want = oracles.pairs_in_long_stems(pairs)
                clause = "without_isolated-keeps-long-stems"
            if cseq != seq or cn != n or cpairs != want:
                out.append(_violation(k, clause, sorted(want), sorted(cpairs)))
    return out


_opt_cache = {}


def optimum_cached(pairs):
    key = tuple(sorted(pairs))
    v = _opt_cache.get(key)
    if v is None:
        v = oracles.optimum(pairs)
        if len(_opt_cache) > 5000:
            _opt_cache.clear()
        _opt_cache[key] = v
    return v


def judge_c02(run, observations):
    out = []
    for k, (step, obs) in enumerate(zip(run["steps"], observations)):
        if obs.get("discard") or step.get("unjudged"):
            continue
        n, pairs, seq, ok = judge_common(k, step, obs, out)
        if not ok:
            continue
        structure = obs["db"][1]
        if not oracles.proper(structure):
            out.append(_violation(k, "proper", "no two crossing stems on one level", structure))
            continue
        if step.get("proper_only"):
            continue  # a feasible incumbent: lossless and proper are all that is asked of it
        best, _ = optimum_cached(pairs)
        if best is None:
            continue  # reference optimiser hit its cap: not judged
        got = oracles.objective(structure)
        if got != best:
            clause = "optimal"
            if not oracles.is_knotted(pairs) and set(structure) - set(".()"):
                clause = "knot-free-uses-round-only"
            elif oracles.can_lower_a_stem(structure):
                clause = "no-stem-can-move-lower"
            elif got < oracles.objective(oracles.fcfs_ref(n, pairs)):
                clause = "never-worse-than-fcfs"
            out.append(_violation(k, clause, {"objective": best}, {"objective": got, "structure": structure}))
    return out


JUDGES = {"C02": judge_c02, "C13": judge_c13}


def signature(violation, run):
    """What identifies a *class* of violation for minimisation and for known-findings matching."""
    step = run["steps"][violation["step"]]
    actual = violation["actual"]
    if violation["clause"] == "never-raises":
        actual = str(actual).split(":")[0]
    else:
        actual = None
    return [violation["clause"], actual]
