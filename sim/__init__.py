"""Deterministic simulation with fault injection for tzok/rnapolis-py (see /verif/DESIGN.md)."""
