"""Seeded workload sources: secondary structures as plain BPSEQ triples [[index, letter, pair], ...].

Every generator takes a random.Random and returns JSON-able data; nothing here imports rnapolis.
"""
from . import oracles

LETTERS = "ACGU"
# swarm: per structure one alphabet (the letters are arbitrary single characters as far as BPSEQ is concerned:
# DNA, lower case, unknown N, the '?' that find_gaps inserts, modified-residue codes)
ALPHABETS = ["ACGU"] * 12 + ["ACGT", "acgu", "ACGUN", "ACGU?", "ACGUXPI", "A", "GgCc"]


def layout(arm_order, lengths, gaps, rng=None, letters=None):
    """arm_order: list of stem ids, each exactly twice (first occurrence = 5' arm);
    lengths[id] >= 1; gaps: len(arm_order)+1 non-negative ints (unpaired runs before/between/after).
    Returns triples."""
    pos = 0
    start5 = {}
    pairs = []
    for k, sid in enumerate(arm_order):
        pos += gaps[k]
        L = lengths[sid]
        if sid not in start5:
            start5[sid] = pos + 1
        else:
            s = start5[sid]
            # 3' arm occupies pos+1 .. pos+L ; outer pair is (s, pos+L)
            for t in range(L):
                pairs.append((s + t, pos + L - t))
        pos += L
    pos += gaps[len(arm_order)]
    n = pos
    if letters is None:
        if rng is None:
            letters = "".join(LETTERS[i % 4] for i in range(n))
        else:
            alphabet = rng.choice(ALPHABETS)
            letters = "".join(rng.choice(alphabet) for _ in range(n))
    return oracles.triples_from(letters, pairs)


def random_arm_order(rng, k):
    order = [s for s in range(k) for _ in (0, 1)]
    rng.shuffle(order)
    # relabel so that stems are numbered by first appearance (canonical, purely cosmetic)
    relabel = {}
    out = []
    for s in order:
        if s not in relabel:
            relabel[s] = len(relabel)
        out.append(relabel[s])
    return out


TEMPLATES = {
    # name -> arm order
    "hairpin": [0, 0],
    "nested2": [0, 1, 1, 0],
    "htype": [0, 1, 0, 1],
    "kissing": [0, 1, 0, 2, 1, 2],
    "ladder3": [0, 1, 2, 0, 1, 2],
    "ladder4": [0, 1, 2, 3, 0, 1, 2, 3],
    "ladder5": [0, 1, 2, 3, 4, 0, 1, 2, 3, 4],
    "star3": [0, 1, 2, 3, 2, 1, 0, 3],  # stem 3 crosses three mutually nested stems
    "star_side": [0, 1, 0, 2, 1, 3, 2, 3],  # path of four
    "path3": [0, 1, 0, 2, 1, 2],
    "two_groups": [0, 1, 0, 1, 2, 3, 2, 3],  # two independent H-type knots
    "three_groups": [0, 1, 0, 1, 2, 3, 2, 3, 4, 5, 4, 5],
    "knot_in_loop": [0, 1, 2, 1, 2, 0],  # H-type inside a hairpin
    "iso_outside": [0, 0, 1, 2, 1, 2],
    "triangle_tail": [0, 1, 2, 0, 1, 3, 2, 3],
}


def gen_structure(rng, max_stems=6, max_len=4, max_gap=3, template_p=0.35, knotted_bias=0.0):
    """One seeded structure.  Returns dict(triples=..., family=...)."""
    for _ in range(50):
        if rng.random() < template_p:
            name = rng.choice(sorted(TEMPLATES))
            order = list(TEMPLATES[name])
            family = "template:" + name
        else:
            k = rng.randint(0, max_stems)
            order = random_arm_order(rng, k)
            family = "random:%d" % k
        nst = (max(order) + 1) if order else 0
        # swarm: per structure choose a length regime
        regime = rng.choice(["ones", "mixed", "long", "equal", "verylong"])
        if regime == "ones":
            lengths = [1] * nst
        elif regime == "equal":
            L = rng.randint(1, max_len)
            lengths = [L] * nst
        elif regime == "long":
            lengths = [rng.randint(2, max_len) for _ in range(nst)]
        elif regime == "verylong":
            lengths = [rng.randint(1, 3 * max_len) for _ in range(nst)]
        else:
            lengths = [rng.randint(1, max_len) for _ in range(nst)]
        gap_regime = rng.choice(["zero", "small", "any"])
        if gap_regime == "zero":
            gaps = [0] * (len(order) + 1)
        elif gap_regime == "small":
            gaps = [rng.randint(0, 1) for _ in range(len(order) + 1)]
        else:
            gaps = [rng.randint(0, max_gap) for _ in range(len(order) + 1)]
        if not order and sum(gaps) == 0:
            gaps = [rng.randint(1, 4)]
        triples = layout(order, lengths, gaps, rng)
        if knotted_bias and rng.random() < knotted_bias:
            _, pairs = oracles.pairs_of_triples(triples)
            if not oracles.is_knotted(pairs):
                continue
        return {"triples": triples, "family": family}
    return {"triples": triples, "family": family}


def gen_multi_group(rng, min_groups=2, max_groups=4):
    """Several independent knotted groups side by side: the all-dot-brackets list then has >= 2
    members (each group with tied levels doubles it)."""
    groups = rng.randint(min_groups, max_groups)
    order, lengths = [], []
    base = 0
    for _ in range(groups):
        kind = rng.choice(["htype", "htype", "ladder3", "kissing", "path3"])
        t = TEMPLATES[kind]
        order += [base + s for s in t]
        k = max(t) + 1
        L = rng.randint(1, 3)
        lengths += [L if rng.random() < 0.7 else rng.randint(1, 3) for _ in range(k)]
        base += k
    gaps = [rng.randint(0, 2) for _ in range(len(order) + 1)]
    return {"triples": layout(order, lengths, gaps, rng), "family": "multigroup:%d" % groups}


def gen_multi_group_rising(rng, min_groups=2, max_groups=3):
    """Independent knotted groups in each of which the stems that open first are the shorter ones: in every group
    first-come-first-served is *not* optimal, so a notation that is optimal in some groups and first-come-first-served
    in others is neither.  For code that solves a request in several parts, some of which fail."""
    groups = rng.randint(min_groups, max_groups)
    order, lengths = [], []
    base = 0
    for _ in range(groups):
        kind = rng.choice(["htype", "htype", "ladder3", "kissing", "path3"])
        t = TEMPLATES[kind]
        order += [base + s for s in t]
        k = max(t) + 1
        L = rng.randint(1, 2)
        step = rng.randint(1, 2)
        lengths += [L + step * s for s in range(k)]
        base += k
    gaps = [rng.randint(0, 2) for _ in range(len(order) + 1)]
    return {"triples": layout(order, lengths, gaps, rng), "family": "multigroup-rising:%d" % groups}


def gen_band(rng, stems=10, min_reach=2, max_reach=3):
    """`stems` stems of which stem i crosses stems i+1 .. i+reach: one connected knotted group whose conflict graph is
    a band.  With ten stems it is the smallest group on which BpSeq.all_dot_brackets walks 10! orderings (about two
    minutes on the unchanged tree): the first size at which somebody is tempted to sample orderings instead."""
    reach = rng.randint(min_reach, max_reach)
    order = []
    for i in range(stems):
        order.append(i)
        if i - reach >= 0:
            order.append(i - reach)
    order += list(range(max(stems - reach, 0), stems))
    lengths = [rng.randint(1, 2) for _ in range(stems)]
    gaps = [rng.randint(0, 1) for _ in range(len(order) + 1)]
    return {"triples": layout(order, lengths, gaps, rng), "family": "band:%d/%d" % (stems, reach)}


def gen_many(rng, min_stems=10, max_stems=16, max_len=3):
    """Many stems (>= 10 regions, two-digit region indexes) but sparse crossings, so that exact
    reference optimisation stays cheap: a chain of blocks (hairpins, nested pairs, small knots), optionally
    wrapped in enclosing stems."""
    target = rng.randint(min_stems, max_stems)
    order, lengths = [], []
    base = 0
    while base < target:
        kind = rng.choice(["hairpin", "hairpin", "nested2", "htype", "htype", "kissing", "ladder3", "path3",
                           "knot_in_loop", "star_side"])
        t = TEMPLATES[kind]
        k = max(t) + 1
        order += [base + x for x in t]
        lengths += [rng.randint(1, max_len) for _ in range(k)]
        base += k
    wraps = rng.choice([0, 0, 1, 2])
    for _ in range(wraps):
        order = [base] + order + [base]
        lengths.append(rng.randint(1, max_len))
        base += 1
    # gaps: at least one unpaired position between blocks now and then, so adjacent stems do not all merge
    gaps = [rng.choice([0, 1, 1, 2]) for _ in range(len(order) + 1)]
    return {"triples": layout(order, lengths, gaps, rng), "family": "many:%d" % base}


def gen_large(rng, min_stems=40, max_stems=110):
    """A long molecule (hundreds of positions, dozens of stems, three-digit indexes) whose conflict graph is made
    of many small components, so that both exact solvers stay fast: the size regime of real ribosomal fragments,
    where size-triggered shortcuts (a heuristic above N regions, a cache only for long inputs) would live."""
    target = rng.randint(min_stems, max_stems)
    order, lengths = [], []
    base = 0
    while base < target:
        kind = rng.choice(["hairpin", "hairpin", "hairpin", "nested2", "nested2", "htype", "kissing", "ladder3", "path3",
                           "knot_in_loop", "star_side", "triangle_tail"])
        t = TEMPLATES[kind]
        k = max(t) + 1
        block = [base + x for x in t]
        block_len = [rng.randint(1, 6) for _ in range(k)]
        base += k
        if rng.random() < 0.3:  # wrap the block in an enclosing stem
            block = [base] + block + [base]
            block_len.append(rng.randint(1, 6))
            base += 1
        order += block
        lengths += block_len
    gaps = [rng.choice([0, 1, 2, 3, 5]) for _ in range(len(order) + 1)]
    return {"triples": layout(order, lengths, gaps, rng), "family": "large:%d" % base}


def gen_gapped_helix(rng):
    """A helix of two (or three) stacked segments whose one- or two-nucleotide gaps are not unpaired bulges but
    the arms of short stems that pair far away, before or after the helix - so that those stems cross only one
    segment.  Treating the segments as one helix, or the gap as 'too short to matter', goes wrong here and on no
    ordinary bulged helix."""
    segs = rng.choice([2, 2, 3])
    seg_ids = list(range(segs))
    lengths = [rng.choice([2, 2, 3]) for _ in seg_ids]
    nxt = segs
    pre, post = [], []
    gaps5 = [[] for _ in range(segs - 1)]  # between the 5' arms of segment k and k+1
    gaps3 = [[] for _ in range(segs - 1)]  # between the 3' arms of segment k+1 and k
    for _ in range(rng.randint(1, 3)):
        k = rng.randrange(segs - 1)
        side = rng.choice(["5", "3"])
        room = 2 - sum(lengths[e] for e in (gaps5 if side == "5" else gaps3)[k])
        if room <= 0:
            continue
        e = nxt
        nxt += 1
        lengths.append(rng.randint(1, room))
        (gaps5 if side == "5" else gaps3)[k].append(e)
        (pre if rng.random() < 0.5 else post).append(e)
    order = list(pre)
    for k in seg_ids:
        order.append(k)
        if k < segs - 1:
            order += gaps5[k]
    for k in reversed(seg_ids):
        order.append(k)
        if k > 0:
            order += gaps3[k - 1]
    order += post
    # relabel by first appearance (layout treats the first occurrence as the 5' arm)
    relabel, out, lens = {}, [], []
    for x in order:
        if x not in relabel:
            relabel[x] = len(relabel)
            lens.append(lengths[x])
        out.append(relabel[x])
    gaps = [0] * (len(out) + 1)
    inner = segs - 1
    for pos in range(len(out) - 1):
        if order[pos] == inner and order[pos + 1] == inner:
            gaps[pos + 1] = rng.randint(1, 4)  # the hairpin loop
    gaps[0], gaps[-1] = rng.choice([0, 1]), rng.choice([0, 1])
    return {"triples": layout(out, lens, gaps, rng), "family": "gappedhelix:%d" % len(lens)}


def gen_far_knot(rng):
    """A near-tie knot at the far end of a genome-size molecule: tens of thousands of unpaired positions, then one
    long stem crossed by m two-pair stems whose total is one pair more or one pair fewer than the long stem.  Any
    position-dependent or size-dependent perturbation of the weights tips the balance here and nowhere else."""
    prefix = rng.randint(20000, 60000)
    m = rng.randint(5, 12)
    handle = 2 * m + rng.choice([-1, 1])
    order = [0] + list(range(1, m + 1)) + [0] + list(reversed(range(1, m + 1)))
    lengths = [handle] + [2] * m
    gaps = [prefix] + [rng.choice([1, 2]) for _ in range(len(order) - 1)] + [rng.choice([0, 3])]
    return {"triples": layout(order, lengths, gaps, rng), "family": "farknot:%d" % m}


def gen_broom(rng, min_leaves=9, max_leaves=13):
    """One or two 'handle' stems each crossing many nested one- or two-pair stems: the maximum degree of the
    conflict graph (and with it the level bound of the emitted model) reaches two digits although only two
    or three levels are ever needed."""
    handles = rng.choice([1, 2, 2])
    m = rng.randint(min_leaves, max_leaves)
    crossing_handles = handles == 2 and rng.random() < 0.7
    # arm order: handles open, leaves open (nested), handles close, leaves close
    hs = list(range(handles))
    leaves = list(range(handles, handles + m))
    close_h = hs if crossing_handles else list(reversed(hs))
    order = hs + leaves + close_h + list(reversed(leaves))
    lengths = [rng.randint(1, 4) for _ in hs] + [rng.choice([1, 1, 2]) for _ in leaves]
    gaps = []
    for k in range(len(order) + 1):
        gaps.append(rng.choice([1, 1, 2]))
    gaps[0] = rng.choice([0, 1])
    gaps[-1] = rng.choice([0, 1])
    return {"triples": layout(order, lengths, gaps, rng), "family": "broom:%d+%d" % (handles, m)}


def gen_big_ladder(rng, min_k=10, max_k=14):
    """k mutually crossing stems (a clique): FCFS needs k levels, i.e. two-digit orders and the letter
    brackets.  Only used where no exact solve is needed (the solver fails before it would solve)."""
    k = rng.randint(min_k, max_k)
    order = list(range(k)) + list(range(k))
    lengths = [rng.choice([1, 1, 2]) for _ in range(k)]
    gaps = [rng.choice([0, 1]) for _ in range(len(order) + 1)]
    return {"triples": layout(order, lengths, gaps, rng), "family": "bigladder:%d" % k}


def gen_near_ladder(rng, min_k=10, max_k=13):
    """A big ladder (k mutually crossing stems) with a few adjacent transpositions in the order of the 3' arms, so
    that a handful of stem pairs nest instead of crossing: the optimum still needs about k levels (two-digit
    orders, letter brackets), the conflict graph is no longer complete and equal-length ties are fewer."""
    k = rng.randint(min_k, max_k)
    close = list(range(k))
    for _ in range(rng.randint(0, 3)):
        i = rng.randrange(k - 1)
        close[i], close[i + 1] = close[i + 1], close[i]
    order = list(range(k)) + close
    regime = rng.choice(["ones", "small", "distinct"])
    if regime == "ones":
        lengths = [1] * k
    elif regime == "small":
        lengths = [rng.choice([1, 1, 2, 3]) for _ in range(k)]
    else:
        lengths = list(range(1, k + 1))
        rng.shuffle(lengths)
    gaps = [rng.choice([0, 1]) for _ in range(len(order) + 1)]
    return {"triples": layout(order, lengths, gaps, rng), "family": "nearladder:%d" % k}


def all_arm_orders(k):
    """Every way to interleave the 5' and 3' arms of k stems (stems numbered by first appearance):
    (2k)! / (2^k k!) sequences - every nesting / crossing topology of k stems."""
    out = []

    def rec(seq, opened, closed):
        if len(seq) == 2 * k:
            out.append(list(seq))
            return
        if opened < k:
            rec(seq + [opened], opened + 1, closed)
        for sid in range(opened):
            if sid not in closed:
                rec(seq + [sid], opened, closed | {sid})

    rec([], 0, frozenset())
    return out


LENGTH_REGIMES = {
    "ones": lambda k: [1] * k,
    "twos": lambda k: [2] * k,
    "alt12": lambda k: [1 + (i % 2) for i in range(k)],
    "alt21": lambda k: [2 - (i % 2) for i in range(k)],
    "rising": lambda k: [i + 1 for i in range(k)],
    "falling": lambda k: [k - i for i in range(k)],
}


def topology_structures(max_k, regimes, gap_values):
    """Exhaustive over topologies: every arm order of 1..max_k stems x the named length regimes x uniform gaps."""
    out = []
    for k in range(1, max_k + 1):
        for order in all_arm_orders(k):
            for name in regimes:
                lengths = LENGTH_REGIMES[name](k)
                for g in gap_values:
                    gaps = [g] * (len(order) + 1)
                    out.append({"triples": layout(order, lengths, gaps), "family": "topology:%d" % k})
    return out


def all_matchings(n):
    """Every perfect-or-partial matching on positions 1..n as a sorted tuple of pairs."""

    def rec(free):
        if not free:
            yield ()
            return
        first, rest = free[0], free[1:]
        for m in rec(rest):  # first stays unpaired
            yield m
        for idx, other in enumerate(rest):
            remaining = rest[:idx] + rest[idx + 1 :]
            for m in rec(remaining):
                yield ((first, other),) + m

    for m in rec(tuple(range(1, n + 1))):
        yield tuple(sorted(m))


def matching_triples(n, pairs):
    letters = "".join(LETTERS[i % 4] for i in range(n))
    return oracles.triples_from(letters, pairs)


def structure_string(triples):
    """Debug aid: the FCFS notation of a structure (reference implementation)."""
    n, pairs = oracles.pairs_of_triples(triples)
    return oracles.fcfs_ref(n, pairs)
