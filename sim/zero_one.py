"""Exact solver for the 0-1 programme that the code under test emitted.

It makes no assumption about what the model should be: it solves whatever objective, rows and
bounds it is given and returns *all* optimal assignments (ties kept), or reports infeasibility.
Two front ends produce the neutral `Model`: `from_pulp(lp)` (API level) and `from_mps(path, maximise)`
(process level: an independent reader of the MPS text that pulp really wrote).
"""
from fractions import Fraction
from math import gcd


class Unsupported(Exception):
    """The emitted model is outside what this reference solver handles (not a verdict)."""


class NodeCap(Exception):
    pass


class BadModelFile(Exception):
    """The model file is one a real command-line solver refuses to read (e.g. a column name used twice)."""


class Model:
    def __init__(self, names, obj, rows, maximise, constant=0):
        self.names = list(names)  # variable names, solver order
        self.obj = dict(obj)  # name -> coefficient
        self.rows = list(rows)  # (name, {var: coef}, sense in {-1, 0, 1}, rhs)
        self.maximise = maximise
        self.constant = constant

    def evaluate(self, assignment):
        return self.constant + sum(self.obj.get(v, 0) * assignment[v] for v in self.names)

    def feasible(self, assignment):
        for _, coefs, sense, rhs in self.rows:
            lhs = sum(c * assignment[v] for v, c in coefs.items())
            if sense == 0 and lhs != rhs:
                return False
            if sense < 0 and lhs > rhs:
                return False
            if sense > 0 and lhs < rhs:
                return False
        return True


def _num(x):
    f = Fraction(x).limit_denominator(10**9)
    return f


def from_pulp(lp):
    import pulp

    # an in-memory solver knows variables as objects, not by name: two variables that share a name stay two
    # variables here (a command-line solver, which is handed names in a file, is another matter - see from_mps)
    names = []
    key_of = {}
    objects = {}
    seen = {}
    for v in lp.variables():
        if v.name == "__dummy":
            continue
        if v.cat != pulp.LpInteger or v.lowBound != 0 or v.upBound != 1:
            raise Unsupported("variable %s is not binary" % v.name)
        k = seen.get(v.name, 0)
        seen[v.name] = k + 1
        key = v.name if k == 0 else "%s#%d" % (v.name, k)
        key_of[id(v)] = key
        objects[key] = v
        names.append(key)
    obj = {}
    constant = 0
    if lp.objective is not None:
        for v, c in lp.objective.items():
            if id(v) in key_of:
                obj[key_of[id(v)]] = _num(c)
        constant = _num(lp.objective.constant)
    rows = []
    for cname, c in lp.constraints.items():
        coefs = {key_of[id(v)]: _num(k) for v, k in c.items() if id(v) in key_of}
        rows.append((cname, coefs, c.sense, _num(-c.constant)))
    model = Model(names, obj, rows, lp.sense == pulp.LpMaximize, constant)
    model.objects = objects
    return model


def from_mps(path, maximise=None):
    """Minimal MPS reader (free/fixed format as written by pulp): NAME, OBJSENSE, ROWS, COLUMNS
    with integrality markers, RHS, BOUNDS (BV/UP/LO/FX), ENDATA."""
    section = None
    objname = None
    row_sense = {}
    row_order = []
    coefs = {}
    obj = {}
    rhs = {}
    names = []
    integer = {}
    lower, upper = {}, {}
    in_int = False
    constant = 0
    with open(path) as f:
        for raw in f:
            if not raw.strip() or raw.startswith("*"):
                continue
            tok = raw.split()
            if not raw[0].isspace():
                section = tok[0]
                if section == "ENDATA":
                    break
                continue
            if section == "OBJSENSE":
                if tok[0].upper() in ("MAX", "MAXIMIZE"):
                    maximise = True
                elif tok[0].upper() in ("MIN", "MINIMIZE"):
                    maximise = False
            elif section == "ROWS":
                kind, name = tok[0], tok[1]
                if kind == "N":
                    if objname is None:
                        objname = name
                else:
                    row_sense[name] = {"E": 0, "L": -1, "G": 1}[kind]
                    row_order.append(name)
                    coefs[name] = {}
            elif section == "COLUMNS":
                if len(tok) >= 3 and tok[1] == "'MARKER'":
                    in_int = tok[2] == "'INTORG'"
                    continue
                var = tok[0]
                if var not in integer:
                    integer[var] = in_int
                    names.append(var)
                elif names[-1] != var:
                    # the entries of one column are contiguous in an MPS file: a name that comes back later is a
                    # second column of the same name, which CBC and HiGHS reject ("duplicate column name")
                    raise BadModelFile("column %s appears twice" % var)
                for k in range(1, len(tok) - 1, 2):
                    row, val = tok[k], _num(tok[k + 1])
                    if row == objname:
                        obj[var] = obj.get(var, 0) + val
                    else:
                        coefs[row][var] = coefs[row].get(var, 0) + val
            elif section == "RHS":
                start = 1 if len(tok) % 2 == 1 else 0
                for k in range(start, len(tok) - 1, 2):
                    row, val = tok[k], _num(tok[k + 1])
                    if row == objname:
                        constant = -val
                    else:
                        rhs[row] = val
            elif section == "BOUNDS":
                kind = tok[0]
                if kind == "BV":
                    var = tok[2] if len(tok) >= 3 else tok[1]
                    lower[var], upper[var] = 0, 1
                    integer[var] = True
                else:
                    var, val = tok[2], _num(tok[3])
                    if kind == "UP":
                        upper[var] = val
                    elif kind == "LO":
                        lower[var] = val
                    elif kind == "FX":
                        lower[var] = upper[var] = val
                    else:
                        raise Unsupported("bound type " + kind)
    if maximise is None:
        maximise = False
    for v in names:
        if not integer.get(v) or lower.get(v, 0) != 0 or upper.get(v) != 1:
            raise Unsupported("variable %s is not binary" % v)
    rows = [(r, coefs[r], row_sense[r], rhs.get(r, 0)) for r in row_order]
    return Model(names, obj, rows, maximise, constant)


def _solve_whole(model, cap_nodes=200_000, cap_solutions=4096):
    """Returns dict(status='optimal'|'infeasible', value, solutions=[{name: 0/1}], nodes, truncated).
    All optimal solutions are enumerated (up to cap_solutions, `truncated` says so) in a canonical
    order (lexicographic on the assignment vector in model.names order, ones first)."""
    names = model.names
    idx = {v: k for k, v in enumerate(names)}
    nv = len(names)
    sign = 1 if model.maximise else -1
    c = [sign * model.obj.get(v, 0) for v in names]  # always maximise sum c.x
    rows = []
    for _, coefs, sense, rhs in model.rows:
        items = [(idx[v], k) for v, k in coefs.items() if k != 0]
        rows.append((items, sense, rhs))

    # rational coefficients are scaled to integers (the objective as a whole, every row by itself): neither the set
    # of optimal assignments nor feasibility changes, and integer arithmetic is an order of magnitude faster
    obj_scale = 1
    dens = [Fraction(x).denominator for x in c if Fraction(x).denominator != 1]
    if dens:
        for d in dens:
            obj_scale = obj_scale * d // gcd(obj_scale, d)
        if obj_scale <= 10**12:
            c = [Fraction(x) * obj_scale for x in c]
        else:
            obj_scale = 1
    scaled_rows = []
    for items, sense, rhs in rows:
        m = 1
        for _, k in items:
            m = m * Fraction(k).denominator // gcd(m, Fraction(k).denominator)
        m = m * Fraction(rhs).denominator // gcd(m, Fraction(rhs).denominator)
        if m != 1 and m <= 10**12:
            items, rhs = [(v, Fraction(k) * m) for v, k in items], Fraction(rhs) * m
        scaled_rows.append((items, sense, rhs))
    rows = scaled_rows
    # exact integer arithmetic when every number is integral (the usual case): much faster
    allnums = list(c) + [k for items, _, _ in rows for _, k in items] + [r for _, _, r in rows]
    if all(Fraction(x).denominator == 1 for x in allnums):
        c = [int(x) for x in c]
        rows = [([(v, int(k)) for v, k in items], s, int(r)) for items, s, r in rows]

    # one-hot partition: equality rows with unit coefficients and rhs 1 that cover every variable
    # exactly once -> branch row by row (pure speed-up, valid for any model that has it)
    onehot_rows = []
    covered = [0] * nv
    for r, (items, sense, rhs) in enumerate(rows):
        if sense == 0 and rhs == 1 and items and all(k == 1 for _, k in items):
            onehot_rows.append(r)
            for v, _ in items:
                covered[v] += 1
    use_onehot = bool(onehot_rows) and all(x == 1 for x in covered)

    rows_of_var = [[] for _ in range(nv)]
    for r, (items, _, _) in enumerate(rows):
        for v, k in items:
            rows_of_var[v].append((r, k))

    # row bookkeeping: current lhs of fixed vars, min/max still attainable from free vars
    lhs = [0] * len(rows)
    free_min = [sum(k for _, k in items if k < 0) for items, _, _ in rows]
    free_max = [sum(k for _, k in items if k > 0) for items, _, _ in rows]
    value = [None] * nv
    state = {"best": None, "sols": [], "nodes": 0, "truncated": False}

    def row_ok(r):
        _, sense, rhs = rows[r]
        lo, hi = lhs[r] + free_min[r], lhs[r] + free_max[r]
        if sense == 0:
            return lo <= rhs <= hi
        if sense < 0:
            return lo <= rhs
        return hi >= rhs

    def fix(v, x):
        value[v] = x
        ok = True
        for r, k in rows_of_var[v]:
            if k < 0:
                free_min[r] -= k
            else:
                free_max[r] -= k
            lhs[r] += k * x
            if ok and not row_ok(r):
                ok = False
        return ok

    def unfix(v):
        x = value[v]
        value[v] = None
        for r, k in rows_of_var[v]:
            if k < 0:
                free_min[r] += k
            else:
                free_max[r] += k
            lhs[r] -= k * x

    def record(total):
        if state["best"] is None or total > state["best"]:
            state["best"] = total
            state["sols"] = []
            state["truncated"] = False
        if total == state["best"]:
            if len(state["sols"]) < cap_solutions:
                state["sols"].append(tuple(value))
            else:
                state["truncated"] = True

    def tick():
        state["nodes"] += 1
        if state["nodes"] > cap_nodes:
            raise NodeCap()


    if use_onehot:
        groups = [[v for v, _ in rows[r][0]] for r in onehot_rows]
        gmax_suffix = [0] * (len(groups) + 1)
        for g in range(len(groups) - 1, -1, -1):
            gmax_suffix[g] = gmax_suffix[g + 1] + max(c[v] for v in groups[g])

        def can_be_one(v):
            for r, k in rows_of_var[v]:
                _, sense, rhs = rows[r]
                lo = lhs[r] + k + free_min[r] - (k if k < 0 else 0)
                hi = lhs[r] + k + free_max[r] - (k if k > 0 else 0)
                if sense == 0:
                    if not lo <= rhs <= hi:
                        return False
                elif sense < 0:
                    if not lo <= rhs:
                        return False
                elif not hi >= rhs:
                    return False
            return True

        dynamic = nv > 24
        if dynamic:
            # nodes are dear with the dynamic bound (it walks every undecided group): keep the worst case of one
            # solve at a few seconds; a run that hits the cap is discarded and counted, never judged
            cap_nodes = min(cap_nodes, 12_000)

        def optimistic(g):
            """Best still attainable from the undecided groups: per group the largest coefficient among the
            variables that can still be set to one given everything fixed so far."""
            if not dynamic:
                return gmax_suffix[g]
            total = 0
            for q in range(g, len(groups)):
                best_c = None
                for v in groups[q]:
                    if (best_c is None or c[v] > best_c) and can_be_one(v):
                        best_c = c[v]
                if best_c is None:
                    return None  # some group cannot be satisfied any more
                total += best_c
            return total

        def rec(g, total):
            tick()
            if g == len(groups):
                record(total)
                return
            opt = optimistic(g)
            if opt is None:
                return
            if state["best"] is not None and total + opt < state["best"]:
                return
            grp = groups[g]
            for chosen in grp:
                done = []
                ok = True
                for v in grp:
                    done.append(v)
                    if not fix(v, 1 if v == chosen else 0):
                        ok = False
                        break
                if ok:
                    rec(g + 1, total + c[chosen])
                for v in reversed(done):
                    unfix(v)

        if all(row_ok(r) for r in range(len(rows))):
            rec(0, 0)
    else:
        pos_suffix = [0] * (nv + 1)
        for v in range(nv - 1, -1, -1):
            pos_suffix[v] = pos_suffix[v + 1] + (c[v] if c[v] > 0 else 0)

        def rec2(v, total):
            tick()
            if state["best"] is not None and total + pos_suffix[v] < state["best"]:
                return
            if v == nv:
                record(total)
                return
            for x in (1, 0):
                if fix(v, x):
                    rec2(v + 1, total + c[v] * x)
                unfix(v)

        import sys

        if nv + 50 > sys.getrecursionlimit():
            sys.setrecursionlimit(nv + 200)
        if all(row_ok(r) for r in range(len(rows))):
            rec2(0, 0)

    if state["best"] is None:
        return {"status": "infeasible", "value": None, "solutions": [], "nodes": state["nodes"],
                "truncated": False, "onehot": use_onehot}
    sols = sorted(set(state["sols"]), reverse=True)
    return {
        "status": "optimal",
        "value": sign * Fraction(state["best"]) / obj_scale + model.constant,
        "solutions": [dict(zip(names, s)) for s in sols],
        "nodes": state["nodes"],
        "truncated": state["truncated"],
        "onehot": use_onehot,
    }


class ProductSolutions:
    """All optimal solutions of a model that splits into independent components: the cartesian product
    of the components' optimal solutions, indexed in mixed radix (component 0 is the slowest digit), never
    materialised."""

    def __init__(self, parts):
        self.parts = parts  # list of lists of dicts
        self.count = 1
        for p in parts:
            self.count *= len(p)

    def __len__(self):
        return self.count

    def __getitem__(self, k):
        if isinstance(k, slice):
            return [self[i] for i in range(*k.indices(self.count))]
        if k < 0:
            k += self.count
        if not 0 <= k < self.count:
            raise IndexError(k)
        out = {}
        for p in reversed(self.parts):
            k, d = divmod(k, len(p))
            out.update(p[d])
        return out

    def __iter__(self):
        for i in range(self.count):
            yield self[i]


def solve(model, cap_nodes=200_000, cap_solutions=4096):
    """Decompose the model into independent components (variables linked by a shared row), solve each
    exactly and return the product.  Same result dictionary as _solve_whole; `solutions` supports len()
    and indexing without being materialised."""
    names = model.names
    parent = {v: v for v in names}

    def find(x):
        while parent[x] != x:
            parent[x] = parent[parent[x]]
            x = parent[x]
        return x

    for _, coefs, _, _ in model.rows:
        vs = [v for v, k in coefs.items() if k != 0]
        for a in vs[1:]:
            ra, rb = find(vs[0]), find(a)
            if ra != rb:
                parent[rb] = ra
    groups = {}
    for v in names:
        groups.setdefault(find(v), []).append(v)
    if len(groups) <= 1:
        return _solve_whole(model, cap_nodes, cap_solutions)
    # constant rows (no variables) must hold by themselves
    for _, coefs, sense, rhs in model.rows:
        if not any(k != 0 for k in coefs.values()):
            if (sense == 0 and rhs != 0) or (sense < 0 and 0 > rhs) or (sense > 0 and 0 < rhs):
                return {"status": "infeasible", "value": None, "solutions": [], "nodes": 0, "truncated": False,
                        "onehot": False}
    parts = []
    total = model.constant
    nodes = 0
    truncated = False
    for root in sorted(groups, key=lambda r: names.index(groups[r][0])):
        vs = groups[root]
        vset = set(vs)
        rows = [r for r in model.rows if any(k != 0 and v in vset for v, k in r[1].items())]
        sub = Model(vs, {v: model.obj.get(v, 0) for v in vs}, rows, model.maximise, 0)
        res = _solve_whole(sub, cap_nodes, cap_solutions)
        nodes += res["nodes"]
        if res["status"] != "optimal":
            return {"status": "infeasible", "value": None, "solutions": [], "nodes": nodes, "truncated": False,
                    "onehot": res.get("onehot", False)}
        truncated = truncated or res["truncated"]
        total += res["value"]
        parts.append(res["solutions"])
    return {"status": "optimal", "value": total, "solutions": ProductSolutions(parts), "nodes": nodes,
            "truncated": truncated, "onehot": True, "components": len(parts)}


def feasible_nonoptimal(model, result, rng_index):
    """A feasible assignment that is not optimal, if one can be found cheaply: used for the
    'stopped with an incumbent' behaviour.  Deterministic given rng_index.  Returns None when the
    model has no feasible non-optimal point within the search budget."""
    names = model.names
    best = result["value"]
    found = []

    # bounded DFS collecting feasible points with a different objective value
    value = {}

    def rec(k):
        if len(found) >= 8:
            return
        if k == len(names):
            if model.feasible(value) and model.evaluate(value) != best:
                found.append(dict(value))
            return
        for x in (0, 1) if (k + rng_index) % 2 else (1, 0):
            value[names[k]] = x
            # cheap prune on one-hot equality rows only via full feasibility at leaves; keep budget
            rec(k + 1)
            if len(found) >= 8:
                return

    if len(names) <= 16:
        rec(0)
    else:
        # permute an optimal solution: move one chosen variable within its equality row
        base = result["solutions"][0]
        for _, coefs, sense, rhs in model.rows:
            if sense != 0:
                continue
            vs = sorted(coefs)
            ones = [v for v in vs if base[v] == 1]
            if len(ones) != 1:
                continue
            for v in vs:
                if base[v] == 0:
                    cand = dict(base)
                    cand[ones[0]] = 0
                    cand[v] = 1
                    if model.feasible(cand) and model.evaluate(cand) != best:
                        found.append(cand)
            if len(found) >= 8:
                break
    if not found:
        return None
    return found[rng_index % len(found)]


def within_gap(model, result, tol, index=0, beam=6):
    """The answer of a solver that was told it may stop within a gap: a feasible assignment whose objective is
    worse than the optimum by at most `tol` (> 0) - the worst one found by moving one or two one-hot choices of
    an optimal solution.  None when no such assignment was found (the solver then simply returns an optimum).
    Deterministic given `index`."""
    if result["status"] != "optimal" or tol <= 0 or not len(result["solutions"]):
        return None
    best = result["value"]
    sign = 1 if model.maximise else -1
    eq_rows = [sorted(coefs) for _, coefs, sense, rhs in model.rows
               if sense == 0 and rhs == 1 and all(k == 1 for k in coefs.values())]
    nsol = len(result["solutions"])
    bases = [dict(result["solutions"][k]) for k in sorted({0, nsol - 1, index % nsol})]

    def neighbours(base):
        for vs in eq_rows:
            ones = [v for v in vs if base[v] == 1]
            if len(ones) != 1:
                continue
            for v in vs:
                if base[v] == 0:
                    cand = dict(base)
                    cand[ones[0]] = 0
                    cand[v] = 1
                    yield cand

    found = {}
    frontier = bases
    for _depth in range(2):
        layer = []
        for base in frontier:
            for cand in neighbours(base):
                key = tuple(cand[v] for v in model.names)
                if key in found:
                    continue
                if not model.feasible(cand):
                    continue
                loss = sign * (best - model.evaluate(cand))
                if 0 < loss <= tol:
                    found[key] = (loss, cand)
                    layer.append((loss, key, cand))
        layer.sort(key=lambda t: (-t[0], t[1]))
        frontier = [c for _, _, c in layer[:beam]]
        if not frontier:
            break
    if not found:
        return None
    worst = max(l for l, _ in found.values())
    ties = sorted(k for k, (l, _) in found.items() if l == worst)
    return found[ties[index % len(ties)]][1]


def gap_tolerance(rel, ab, optimum):
    """How far from the optimum a solver given these stopping tolerances is entitled to stop."""
    tol = 0
    try:
        if rel is not None and float(rel) > 0:
            tol = max(tol, Fraction(float(rel)).limit_denominator(10**9) * abs(Fraction(optimum)))
        if ab is not None and float(ab) > 0:
            tol = max(tol, Fraction(float(ab)).limit_denominator(10**9))
    except (TypeError, ValueError):
        return 0
    return tol
