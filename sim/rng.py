"""One integer decides everything: every PRNG stream is derived from VERIF_SEED by hashing.

`derive(*parts)` -> int, `stream(*parts)` -> random.Random.  No stream is ever seeded from a
clock, a pid or an object address, and logging paths never draw from a stream.
"""
import hashlib
import random

PREFIX = "rnapolis-verif"


def derive(*parts) -> int:
    text = "|".join([PREFIX] + [str(p) for p in parts])
    return int.from_bytes(hashlib.sha256(text.encode()).digest()[:16], "big")


def stream(*parts) -> random.Random:
    return random.Random(derive(*parts))


def digest(obj) -> str:
    """Stable SHA-256 of a JSON-able object (sorted keys, no whitespace variation)."""
    import json

    return hashlib.sha256(
        json.dumps(obj, sort_keys=True, separators=(",", ":")).encode()
    ).hexdigest()
