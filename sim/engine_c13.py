"""C13 - dot-bracket generation survives every solver configuration and solver fault.

Run index i < n_catalogue: one seeded knotted structure x the *complete* fault catalogue (every
layer x kind x injection point x via).  Run index >= n_catalogue: a seeded history of 1..12 solves in
one simulated world with an independent fault draw per solve (swarm style).
"""
import copy

from . import oracles, rng, shrink, solve_engine, structures
from .solverseam import API_ASSIGN, API_KINDS, CBC_KINDS, HIGHS_KINDS, REAL_KINDS

NAME = "C13"
LEVEL = "fault_enumeration"

PLAN = {
    "quick": {"catalogue": 48, "histories": 2000, "chunk": 8, "budget": None, "max_steps": 12},
    "thorough": {"catalogue": 400, "histories": None, "chunk": 16, "budget": 600, "max_steps": 12},
}

ASSUMPTIONS = [
    "the pulp installed in /venv (3.1.1) is the pulp rnapolis runs with; its seams are patched by attribute",
    "the simulated CBC/HiGHS processes write files only as faithful as pulp's own readers require; the "
    "HiGHS binary is not installed, so the HiGHS configuration always runs the real HiGHS_CMD wrapper "
    "against the stub process",
    "fault alphabet = what the property names (PulpSolverError, the four non-optimal statuses, no solver); "
    "manifestations outside it (OSError from Popen, truncated solution files that make pulp raise "
    "IndexError/TypeError) are not injected",
    "structures and histories are sampled (seeded); only the fault catalogue is enumerated completely",
]

OPS = ["dot_bracket", "elements", "without_pseudoknots", "without_isolated", "mapping_dot_bracket", "mapping_extended",
       "mapping_extract"]
CORPUS = ["1ehz-assembly-1.cif", "4qln.cif"]
KINDS_OF = {"sim-api": API_KINDS, "cbc-wrapper": CBC_KINDS, "highs-wrapper": HIGHS_KINDS,
            "real-cbc": REAL_KINDS, "none": ["ok"]}


def preload(tier):
    solve_engine.common()
    for name in CORPUS:
        solve_engine.corpus_mapping(name)


def catalogue(cfg):
    """Every (backend, fault) of the catalogue; cfg supplies the seeded free parameters (tie, mask)."""
    out = []
    for kind in API_KINDS:
        if kind.startswith("status_") or kind == "raise_after_optimal":
            for assign in API_ASSIGN:
                out.append(("sim-api", {"kind": kind, "assign": assign}))
        else:
            out.append(("sim-api", {"kind": kind}))
    for kind in CBC_KINDS:
        out.append(("cbc-wrapper", {"kind": kind}))
    for kind in HIGHS_KINDS:
        out.append(("highs-wrapper", {"kind": kind}))
    for kind in REAL_KINDS:
        out.append(("real-cbc", {"kind": kind}))
    out.append(("none", {"kind": "ok"}))
    # transient failures: the back-end fails once and would succeed if asked again
    transient = [("sim-api", {"kind": "raise_before"}), ("sim-api", {"kind": "status_infeasible", "assign": "full"}),
                 ("cbc-wrapper", {"kind": "exit_nonzero"}), ("cbc-wrapper", {"kind": "no_sol_file"}),
                 ("highs-wrapper", {"kind": "exit_minus1"}), ("highs-wrapper", {"kind": "timelimit_no_solution"})]
    # late failures: the back-end works when first asked and fails when asked again within one request (code that
    # solves a request in several parts must still answer first-come-first-served - or, having retried, the optimum)
    late = [("sim-api", {"kind": "raise_before"}), ("sim-api", {"kind": "status_infeasible", "assign": "none"}),
            ("sim-api", {"kind": "status_notsolved", "assign": "partial"}),
            ("cbc-wrapper", {"kind": "exit_nonzero"}), ("cbc-wrapper", {"kind": "infeasible"}),
            ("highs-wrapper", {"kind": "exit_minus1"}), ("highs-wrapper", {"kind": "timelimit_no_solution"})]
    steps = []
    for via in ("property", "argument"):
        for backend, fault in late:
            f = dict(fault, tie=cfg.randrange(64), partial=cfg.randrange(1 << 16), exc=cfg.choice(["message", "noargs", "subclass"]))
            steps.append({"backend": backend, "via": via, "fault": {"kind": "ok", "tie": cfg.randrange(64)}, "fault_then": f,
                          "default": "none"})
        for backend, fault in out:
            f = dict(fault)
            f["tie"] = cfg.randrange(64)
            f["partial"] = cfg.randrange(1 << 16)
            f["exc"] = cfg.choice(["message", "noargs", "subclass"])
            step = {"backend": backend, "via": via, "fault": f, "default": cfg.choice(["none", "sim-api"])}
            if backend == "highs-wrapper" and via == "property":
                # two back-ends in one world: what the default solver would do if the code under test turned to it
                # after HiGHS (it does not today)
                step["default"] = cfg.choice(["none", "sim-api", "sim-api"])
                step["default_fault"] = second_choice_fault(cfg)
            steps.append(step)
        for backend, fault in transient:
            f = dict(fault, tie=cfg.randrange(64), partial=cfg.randrange(1 << 16), exc=cfg.choice(["message", "noargs", "subclass"]))
            steps.append({"backend": backend, "via": via, "fault": f, "fault_then": {"kind": "ok", "tie": cfg.randrange(64)},
                          "default": "none"})
    return steps


def second_choice_fault(r):
    kind = r.choice(["ok", "ok", "raise_before", "status_notsolved", "status_infeasible", "status_unbounded",
                     "status_undefined"])
    return {"kind": kind, "assign": r.choice(API_ASSIGN), "tie": r.randrange(64), "partial": r.randrange(1 << 16),
            "exc": r.choice(["message", "noargs", "subclass"])}


def gen_run(seed, tier, i):
    plan = PLAN[tier]
    s_struct = rng.stream(NAME, tier, seed, i, "structure")
    s_cfg = rng.stream(NAME, tier, seed, i, "config")
    s_fault = rng.stream(NAME, tier, seed, i, "faults")
    s_ops = rng.stream(NAME, tier, seed, i, "ops")
    if i < plan["catalogue"]:
        if i % 16 == 5:
            st = structures.gen_large(s_struct, 30, 80)
        elif i % 4 == 3:
            st = structures.gen_many(s_struct, 10, 14)
        elif i % 4 == 1:
            st = structures.gen_multi_group_rising(s_struct)
        elif i % 8 == 2:
            st = structures.gen_broom(s_struct)
        else:
            st = structures.gen_structure(s_struct, max_stems=6, knotted_bias=1.0)
        steps = []
        for k, partial in enumerate(catalogue(s_cfg)):
            step = dict(partial)
            step["triples"] = st["triples"]
            step["op"] = "dot_bracket"
            step["route"] = s_ops.choice(solve_engine.ROUTES)
            steps.append(step)
        return {"property": NAME, "kind": "catalogue", "family": st["family"], "steps": steps,
                "loglevel": ["off", "DEBUG", "INFO", "off"][i % 4]}
    # seeded history
    nsteps = s_ops.randint(1, plan["max_steps"])
    backends = ["sim-api", "cbc-wrapper", "highs-wrapper", "none", "real-cbc"]
    weights = [5, 4, 4, 1, 1]
    enabled = [b for b in backends if s_cfg.random() < 0.7] or ["sim-api"]
    ew = [weights[backends.index(b)] for b in enabled]
    ops = [o for o in OPS if s_cfg.random() < 0.7] or ["dot_bracket"]
    fault_rate = s_cfg.choice([0.0, 0.3, 0.5, 0.5, 0.8, 1.0])
    stop_after = s_cfg.choice([None, None, s_cfg.randint(0, nsteps)])
    reuse_structure = s_cfg.random() < 0.3
    def fresh_structure():
        x = s_struct.random()
        if x < 0.004:
            return structures.gen_large(s_struct, 300, 420)
        if x < 0.02:
            return structures.gen_large(s_struct, 30, 80)
        if x < 0.12:
            return structures.gen_many(s_struct, 10, 14)
        if x < 0.20:
            return structures.gen_broom(s_struct)
        if x < 0.30:
            return structures.gen_multi_group_rising(s_struct)
        return structures.gen_structure(s_struct, max_stems=7, knotted_bias=0.75)

    pool = [fresh_structure() for _ in range(3)]
    steps = []
    for k in range(nsteps):
        st = s_struct.choice(pool) if reuse_structure else fresh_structure()
        backend = s_cfg.choices(enabled, ew)[0]
        op = s_ops.choice(ops)
        if s_struct.random() < 0.05:
            # a clique of 10-14 stems: FCFS needs two-digit levels.  The stub cannot solve that model within
            # its node cap, so pair it only with behaviours in which the solver fails before solving.
            st = structures.gen_big_ladder(s_struct)
            backend, kind = s_fault.choice([("sim-api", "raise_before"), ("cbc-wrapper", "not_executable"),
                                            ("cbc-wrapper", "exit_nonzero"), ("highs-wrapper", "not_executable"),
                                            ("highs-wrapper", "exit_minus1"), ("none", "ok")])
            op = s_ops.choice(["dot_bracket", "elements", "without_pseudoknots"])
            steps.append({"triples": st["triples"], "op": op, "via": "property", "backend": backend,
                          "fault": {"kind": kind, "tie": 0, "partial": 0}, "default": "none"})
            continue
        via = "property" if op != "dot_bracket" else s_ops.choice(["property", "property", "argument"])
        faulty = s_fault.random() < fault_rate and (stop_after is None or k < stop_after)
        kinds = KINDS_OF[backend]
        kind = s_fault.choice(kinds[1:]) if (faulty and len(kinds) > 1) else "ok"
        fault = {"kind": kind, "tie": s_fault.randrange(64), "partial": s_fault.randrange(1 << 16),
                 "exc": s_fault.choice(["message", "noargs", "subclass"])}
        if kind.startswith("status_") or kind == "raise_after_optimal":
            fault["assign"] = s_fault.choice(API_ASSIGN)
        step = {"triples": st["triples"], "op": op, "via": via, "backend": backend,
                "fault": fault, "default": s_cfg.choice(["none", "sim-api"])}
        if backend == "highs-wrapper":
            step["default_fault"] = second_choice_fault(s_fault)
        if len(kinds) > 1 and s_fault.random() < 0.3:
            then = s_fault.choice(["ok", "ok"] + [k for k in kinds[1:] if k not in ("not_executable", "vanishes_after_lookup")])
            step["fault_then"] = {"kind": then, "tie": s_fault.randrange(64), "partial": s_fault.randrange(1 << 16),
                                  "assign": s_fault.choice(API_ASSIGN), "exc": s_fault.choice(["message", "noargs", "subclass"])}
        if op == "mapping_extract" and s_ops.random() < 0.6:
            op = step["op"] = "mapping_dot_bracket"  # the full entry point is ~50x dearer: keep it rare
        step["route"] = s_ops.choice(solve_engine.ROUTES)
        if op.startswith("mapping_"):
            step["corpus"] = CORPUS[0] if op == "mapping_extract" else s_ops.choice(CORPUS)
            step["triples"] = []
            step["find_gaps"] = s_ops.random() < 0.3
            step["all_dot_brackets"] = s_ops.random() < 0.3
        steps.append(step)
    # clause (e): after the last fault a fresh object with a healthy solver
    st = structures.gen_structure(s_struct, max_stems=6, knotted_bias=1.0)
    steps.append({"triples": st["triples"], "op": "dot_bracket", "via": "property",
                  "backend": s_cfg.choice(["sim-api", "cbc-wrapper"]), "fault": {"kind": "ok", "tie": 0},
                  "default": "none"})
    if i % 8 == 0:
        # probe (never judged): a solver that returns normally with an integrality-tolerance value such as
        # 0.9999999 for a binary variable - outside the property's fault alphabet, counted in the evidence
        st = structures.gen_structure(s_struct, max_stems=5, knotted_bias=1.0)
        steps.append({"triples": st["triples"], "op": "dot_bracket", "via": "argument", "backend": "sim-api",
                      "fault": {"kind": "ok_tolerance", "tie": s_fault.randrange(64)}, "probe": True})
    return {"property": NAME, "kind": "history", "steps": steps, "loglevel": s_cfg.choice(["off", "off", "INFO", "DEBUG"])}


def coverage_keys(run, observations):
    keys = []
    for step, obs in zip(run["steps"], observations):
        n, pairs = oracles.pairs_of_triples(obs.get("triples") or step["triples"])
        if not oracles.is_knotted(pairs):
            continue
        f = step["fault"]
        keys.append(rng.digest([step["backend"], f.get("kind"), f.get("assign"), step["via"],
                                step["op"], oracles.graph_signature(pairs)])[:20])
    return keys


def execute_run(run, tmpdir):
    observations, digest, counters, leftovers = solve_engine.execute(run, tmpdir)
    violations = solve_engine.judge_c13(run, observations)
    for v in violations:
        v["signature"] = signature(v, run)
    nsolves = sum(len(o.get("solves", [])) for o in observations)
    probes = {"tolerance_probe_steps": 0, "tolerance_probe_lossy_or_raised": 0}
    for step, obs in zip(run["steps"], observations):
        if step.get("probe") and not obs.get("discard"):
            probes["tolerance_probe_steps"] += 1
            tmp = []
            solve_engine.judge_common(0, step, obs, tmp)
            if tmp:
                probes["tolerance_probe_lossy_or_raised"] += 1
    return {"violations": violations, "digest": digest, "counters": counters,
            "coverage": coverage_keys(run, observations), "steps": len(run["steps"]),
            "solves": nsolves, "discards": sum(1 for o in observations if o.get("discard")), "probes": probes,
            "observations": observations}


def run_index(seed, tier, i, tmpdir):
    run = gen_run(seed, tier, i)
    res = execute_run(run, tmpdir)
    res.pop("observations")
    res["index"] = i
    res["kind"] = run["kind"]
    if res["violations"] or i % 97 == 0:
        res["run"] = run
    return res


def discard_result(i, reason):
    return {"index": i, "violations": [], "digest": "discard:died", "counters": {"discard.run-died": 1}, "coverage": [],
            "steps": 1, "solves": 0, "discards": 1, "probes": {}, "kind": "history"}


def rebuild_run(seed, tier, i, tmpdir):
    return gen_run(seed, tier, i)


def signature(v, run):
    return solve_engine.signature(v, run)


def size_of(run):
    return len(run["steps"])


def shrink_candidates(run, v):
    steps = run["steps"]
    focus = v["step"]
    for cand, _ in shrink.step_list_candidates(steps, focus):
        yield dict(run, steps=cand)
    # simplify the violating step
    step = steps[focus]
    if step.get("op") != "dot_bracket" and step.get("triples"):
        yield _with_step(run, focus, dict(step, op="dot_bracket"))
    if step.get("backend") not in ("sim-api", "none"):
        kind = step["fault"].get("kind")
        if kind == "ok":
            yield _with_step(run, focus, dict(step, backend="sim-api"))
        else:
            yield _with_step(run, focus, dict(step, backend="sim-api", fault=dict(step["fault"], kind="raise_before")))
            yield _with_step(run, focus, dict(step, backend="sim-api", fault=dict(step["fault"], kind="status_infeasible", assign="none")))
    if step.get("fault", {}).get("assign") in ("partial", "full"):
        yield _with_step(run, focus, dict(step, fault=dict(step["fault"], assign="none")))
    if step.get("via") == "property" and step.get("op") == "dot_bracket":
        yield _with_step(run, focus, dict(step, via="argument"))
    if step.get("route", "entries") != "entries":
        yield _with_step(run, focus, dict(step, route="entries"))
    if step.get("fault", {}).get("tie"):
        yield _with_step(run, focus, dict(step, fault=dict(step["fault"], tie=0)))
    if run.get("loglevel", "off") != "off":
        yield dict(run, loglevel="off")
    if step.get("fault_then"):
        yield _with_step(run, focus, {k: v for k, v in step.items() if k != "fault_then"})
    if step.get("default_fault"):
        yield _with_step(run, focus, {k: v for k, v in step.items() if k != "default_fault"})
    for t in shrink.structure_candidates(step["triples"]) if step.get("triples") else []:
        if t:
            yield _with_step(run, focus, dict(step, triples=t))


def _with_step(run, k, step):
    steps = list(run["steps"])
    steps[k] = step
    return dict(run, steps=copy.deepcopy(steps))


def coverage_doc(results, tier):
    cov = set()
    counters = {}
    steps = solves = discards = 0
    kinds = {"catalogue": 0, "history": 0}
    samples = []
    probes = {}
    for r in results:
        for pk, pv in r.get("probes", {}).items():
            probes[pk] = probes.get(pk, 0) + pv
        cov.update(r["coverage"])
        steps += r["steps"]
        solves += r["solves"]
        discards += r["discards"]
        kinds[r["kind"]] = kinds.get(r["kind"], 0) + 1
        for k, n in r["counters"].items():
            counters[k] = counters.get(k, 0) + n
        if "run" in r and len(samples) < 3:
            run = r["run"]
            samples.append({"run_index": r["index"], "kind": run["kind"], "n_steps": len(run["steps"]),
                            "first_steps": [_brief(s) for s in run["steps"][:4]]})
    return {
        "evaluations": steps,
        "distinct_nontrivial": len(cov),
        "rule": "one evaluation = one step (a structure asked for its dot-bracket or a consumer of it in "
                "a given solver configuration under a given injected fault). Distinct = distinct "
                "(backend/layer, fault kind, injection point, via, op, conflict graph with stem lengths) "
                "tuples; non-trivial = the structure's conflict graph is non-empty (the solver is "
                "actually consulted). Catalogue runs enumerate every catalogue entry for one seeded "
                "knotted structure; history runs draw 1..12 solves with independent faults.",
        "samples": samples,
        "exhaustive": False,
        "fault_catalogue_enumerated_per_structure": True,
        "runs": len(results),
        "runs_by_kind": kinds,
        "solver_invocations": solves,
        "discarded_steps": discards,
        "probes": dict(probes, note="probe steps are outside the property's fault alphabet and never affect the exit code: "
                                    "a solver returning 0.9999999 for a binary variable is mis-read by the exact "
                                    "varValue == 1 read-back"),
        "fault_kinds_fired": dict(sorted(counters.items())),
        "simulated_time": "none: no anchored code path reads a clock; 'time' is the step count",
        "real_vs_stub": {
            "real": ["rnapolis (working tree)", "pulp model building", "pulp MPS writer",
                     "PULP_CBC_CMD / HiGHS_CMD command assembly, status mapping, solution readers, temp files",
                     "bundled CBC binary (backend real-cbc, fault-free and not-executable only)"],
            "stub": ["solver process at API/CBC/HiGHS layers (exact 0-1 solver over the emitted model)",
                     "PATH lookup (shutil.which inside pulp.apis.core)", "uuid4 temp names",
                     "HiGHS binary (not installed in this sandbox: always the stub)"],
        },
    }


def _brief(step):
    return {"structure": structures.structure_string(step["triples"]) if step.get("triples") else step.get("corpus"), "op": step["op"], "via": step["via"],
            "backend": step["backend"], "fault": step["fault"]}


REQUIRED_FIRED = ["api.ok", "api.raise_before", "api.raise_after_partial", "cbc.ok", "cbc.exit_nonzero",
                  "cbc.no_sol_file", "cbc.infeasible", "cbc.integer_infeasible", "cbc.unbounded",
                  "cbc.stopped_no_incumbent", "cbc.unknown_word", "highs.ok", "highs.exit_minus1",
                  "highs.infeasible", "highs.unbounded", "highs.timelimit_no_solution",
                  "highs.sol_unreadable", "highs.vanishes_after_lookup", "real-cbc.ok", "api.ok_zero_noise",
                  "cbc.ok_zero_noise", "highs.ok_zero_noise"] + [
    "api.%s.%s" % (k, a) for k in API_KINDS if k.startswith("status_") or k == "raise_after_optimal" for a in API_ASSIGN]
