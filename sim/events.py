"""In-memory event log.  Appending never draws from a PRNG and never reads a clock."""
import hashlib
import json


class EventLog:
    def __init__(self):
        self.events = []
        self.counters = {}

    def add(self, kind, detail=None):
        self.events.append((len(self.events), kind, detail))

    def count(self, key, inc=1):
        self.counters[key] = self.counters.get(key, 0) + inc

    def digest(self):
        h = hashlib.sha256()
        for ev in self.events:
            h.update(json.dumps(ev, sort_keys=True, default=str).encode())
            h.update(b"\n")
        return h.hexdigest()

    def kinds(self):
        return [e[1] for e in self.events]


CURRENT = EventLog()


def reset():
    global CURRENT
    CURRENT = EventLog()
    return CURRENT


def log(kind, detail=None):
    CURRENT.add(kind, detail)


def fired(key):
    CURRENT.count(key)


class suspended:
    """Machinery-internal work (computing a reference answer) leaves no trace in the run's event log."""

    def __enter__(self):
        global CURRENT
        self.saved = CURRENT
        CURRENT = EventLog()
        return self

    def __exit__(self, *exc):
        global CURRENT
        CURRENT = self.saved
        return False
