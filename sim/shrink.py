"""Shrinking of structures (BPSEQ triples) and of step lists, shared by the engines."""
from . import oracles


def renumber(triples, keep):
    """Keep the positions in `keep` (sorted list of 1-based indexes), drop the rest; pairs whose
    partner is dropped become unpaired."""
    new_index = {old: k + 1 for k, old in enumerate(keep)}
    out = []
    for i, ch, j in triples:
        if i not in new_index:
            continue
        out.append([new_index[i], ch, new_index.get(j, 0) if j else 0])
    return out


def unpair(triples, pairs_to_remove):
    drop = set()
    for i, j in pairs_to_remove:
        drop.add(i)
        drop.add(j)
    return [[i, ch, 0 if i in drop else j] for i, ch, j in triples]


def structure_candidates(triples):
    """Smaller structures, most aggressive first."""
    n, pairs = oracles.pairs_of_triples(triples)
    st = oracles.stems(pairs)
    # remove a whole stem together with its positions
    for i, j, L in st:
        gone = set(range(i, i + L)) | set(range(j - L + 1, j + 1))
        yield renumber(triples, [k for k in range(1, n + 1) if k not in gone])
    # remove all unpaired positions at once
    unpaired = [i for i, _, j in triples if j == 0]
    if unpaired:
        yield renumber(triples, [i for i, _, j in triples if j != 0])
    # shorten a stem by its innermost pair (positions removed)
    for i, j, L in st:
        if L > 1:
            gone = {i + L - 1, j - L + 1}
            yield renumber(triples, [k for k in range(1, n + 1) if k not in gone])
    # unpair a stem but keep the positions
    for i, j, L in st:
        yield unpair(triples, [(i + t, j - t) for t in range(L)])
    # remove single unpaired positions
    for u in unpaired:
        yield renumber(triples, [k for k in range(1, n + 1) if k != u])
    # uniform letters
    if any(ch != "A" for _, ch, _ in triples):
        yield [[i, "A", j] for i, _, j in triples]


def step_list_candidates(steps, focus):
    """Drop steps: first everything but the violating one, then prefixes/suffixes, then single steps."""
    if len(steps) > 1:
        yield [steps[focus]], 0
        if focus + 1 < len(steps):
            yield steps[: focus + 1], focus
        if focus > 0:
            yield steps[focus:], 0
        for k in range(len(steps)):
            if k != focus:
                yield steps[:k] + steps[k + 1 :], focus - (1 if k < focus else 0)
