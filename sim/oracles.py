"""Reference models, written from the property statements only.

Input everywhere: N (number of positions) and the set of pairs {(i, j), i < j}, 1-based.
Nothing here imports rnapolis or looks at any intermediate of common.py.
"""
import string

OPENING = "([{<" + string.ascii_uppercase
CLOSING = ")]}>" + string.ascii_lowercase
LEVEL_OF = {}
for _k, (_o, _c) in enumerate(zip(OPENING, CLOSING)):
    LEVEL_OF[_o] = (_k, +1)
    LEVEL_OF[_c] = (_k, -1)
NLEVELS = len(OPENING)


def pairs_of_triples(triples):
    """[(index, letter, pair)] -> (N, frozenset of (i, j) with i < j).  Assumes a valid BPSEQ."""
    pairs = set()
    for i, _, j in triples:
        if j != 0:
            pairs.add((min(i, j), max(i, j)))
    return len(triples), frozenset(pairs)


def sequence_of_triples(triples):
    return "".join(c for _, c, _ in triples)


def triples_from(seq, pairs):
    partner = {}
    for i, j in pairs:
        partner[i] = j
        partner[j] = i
    return [[k + 1, seq[k], partner.get(k + 1, 0)] for k in range(len(seq))]


def decode(structure):
    """Dot-bracket string -> frozenset of 1-based pairs, or None when it is not a balanced word over
    dot + the 30 bracket types."""
    stacks = [[] for _ in range(NLEVELS)]
    pairs = set()
    for pos, ch in enumerate(structure, start=1):
        if ch == ".":
            continue
        got = LEVEL_OF.get(ch)
        if got is None:
            return None
        level, direction = got
        if direction > 0:
            stacks[level].append(pos)
        else:
            if not stacks[level]:
                return None
            pairs.add((stacks[level].pop(), pos))
    if any(stacks):
        return None
    return frozenset(pairs)


def level_of_pairs(structure):
    """{(i, j): level} for a balanced structure (None otherwise)."""
    stacks = [[] for _ in range(NLEVELS)]
    out = {}
    for pos, ch in enumerate(structure, start=1):
        if ch == ".":
            continue
        got = LEVEL_OF.get(ch)
        if got is None:
            return None
        level, direction = got
        if direction > 0:
            stacks[level].append(pos)
        else:
            if not stacks[level]:
                return None
            out[(stacks[level].pop(), pos)] = level
    if any(stacks):
        return None
    return out


def stems(pairs):
    """Maximal runs (i, j), (i+1, j-1), ... -> list of (i, j, length) in 5' order."""
    pset = set(pairs)
    out = []
    for i, j in sorted(pset):
        if (i - 1, j + 1) in pset:
            continue  # not the outermost pair of its run
        n = 1
        while (i + n, j - n) in pset and i + n < j - n:
            n += 1
        out.append((i, j, n))
    return out


def crosses(a, b):
    """Do the pairs/stems a=(i, j, ...) and b=(k, l, ...) cross?  (outer pairs)"""
    i, j = a[0], a[1]
    k, l = b[0], b[1]
    return i < k < j < l or k < i < l < j


def conflict_graph(stem_list):
    n = len(stem_list)
    adj = [set() for _ in range(n)]
    for a in range(n):
        for b in range(a + 1, n):
            if crosses(stem_list[a], stem_list[b]):
                adj[a].add(b)
                adj[b].add(a)
    return adj


def graph_signature(pairs):
    """(stem lengths in 5' order, edge list) - what 'distinct conflict graph' means in evidence."""
    st = stems(pairs)
    adj = conflict_graph(st)
    edges = tuple((a, b) for a in range(len(st)) for b in sorted(adj[a]) if a < b)
    return tuple(s[2] for s in st), edges


def is_knotted(pairs):
    st = stems(pairs)
    return any(conflict_graph(st)[a] for a in range(len(st)))


def render(n, stem_list, levels):
    out = ["."] * n
    for (i, j, length), lev in zip(stem_list, levels):
        for t in range(length):
            out[i + t - 1] = OPENING[lev]
            out[j - t - 1] = CLOSING[lev]
    return "".join(out)


def fcfs_ref(n, pairs):
    """First come first served: stems in 5' order, each on the lowest level not used by an earlier
    stem that crosses it."""
    st = stems(pairs)
    levels = []
    for a, s in enumerate(st):
        used = {levels[b] for b in range(a) if crosses(st[b], s)}
        lev = 0
        while lev in used:
            lev += 1
        levels.append(lev)
    return render(n, st, levels)


def objective(structure):
    """(nucleotides on level 0) - sum_k k * (nucleotides on level k), read off the string."""
    total = 0
    for ch in structure:
        if ch == ".":
            continue
        level, _ = LEVEL_OF[ch]
        total += 1 if level == 0 else -level
    return total


def optimum(pairs, cap_nodes=400_000):
    """Exact maximum of `objective` over proper level assignments of the stems: the conflict graph is
    split into connected components, each solved by branch and bound.  Returns (value, nodes) or
    (None, nodes) when the node cap was hit."""
    st = stems(pairs)
    adj = conflict_graph(st)
    seen = set()
    total = 0
    nodes = 0
    for a in range(len(st)):
        if a in seen:
            continue
        comp, todo = [], [a]
        seen.add(a)
        while todo:
            x = todo.pop()
            comp.append(x)
            for y in adj[x]:
                if y not in seen:
                    seen.add(y)
                    todo.append(y)
        if len(comp) == 1:
            total += 2 * st[a][2]
            continue
        comp.sort()
        sub = [st[x] for x in comp]
        v, nd = _optimum_component(sub, cap_nodes - nodes)
        nodes += nd
        if v is None:
            return None, nodes
        total += v
    return total, nodes


def _optimum_component(st, cap_nodes):
    adj = conflict_graph(st)
    n = len(st)
    if n == 0:
        return 0, 0
    order = sorted(range(n), key=lambda a: (-len(adj[a]), -st[a][2], a))
    nts = [2 * st[a][2] for a in range(n)]
    best = [None]
    nodes = [0]
    level = [None] * n
    maxlev = min(n, NLEVELS)

    class Cap(Exception):
        pass

    clique_bound = n >= 7

    def optimistic(pos):
        """Upper bound on what the still unassigned stems can add.  Small components: each on the lowest level
        not taken by an already assigned crossing stem (ignores conflicts among the unassigned ones).  Larger
        components: the unassigned stems are split greedily into groups of mutually crossing stems; the members
        of one group need distinct levels, each not below its own lowest free level - that relaxation (unit
        jobs with release dates, cost weight x level, levels blocked for every member skipped) is solved exactly
        by 'lowest level first, heaviest available stem first', which makes big ladders (cliques) and
        near-cliques cheap."""
        total = 0
        lows = {}
        useds = {}
        for q in range(pos, n):
            a = order[q]
            used = {level[b] for b in adj[a] if level[b] is not None}
            lev = 0
            while lev in used:
                lev += 1
            lows[a] = lev
            useds[a] = used
            if not clique_bound:
                total += nts[a] if lev == 0 else -lev * nts[a]
        if not clique_bound:
            return total
        groups = []
        for q in range(pos, n):
            a = order[q]
            for g in groups:
                if all(b in adj[a] for b in g):
                    g.append(a)
                    break
            else:
                groups.append([a])
        for g in groups:
            if len(g) == 1:
                a = g[0]
                total += nts[a] if lows[a] == 0 else -lows[a] * nts[a]
                continue
            pending = sorted(g, key=lambda a: lows[a])
            blocked = set.intersection(*(useds[a] for a in g))  # levels none of the members may take
            avail = []
            lev = 0
            k = 0
            while k < len(pending) or avail:
                if not avail and lows[pending[k]] > lev:
                    lev = lows[pending[k]]
                while lev in blocked:
                    lev += 1
                while k < len(pending) and lows[pending[k]] <= lev:
                    avail.append(nts[pending[k]])
                    k += 1
                avail.sort()
                w = avail.pop()
                total += w if lev == 0 else -lev * w
                lev += 1
        return total

    def rec(pos, value):
        nodes[0] += 1
        if nodes[0] > cap_nodes:
            raise Cap()
        if pos == n:
            if best[0] is None or value > best[0]:
                best[0] = value
            return
        if best[0] is not None and value + optimistic(pos) <= best[0]:
            return
        a = order[pos]
        used = {level[b] for b in adj[a] if level[b] is not None}
        for lev in range(maxlev):
            if lev in used:
                continue
            level[a] = lev
            rec(pos + 1, value + (nts[a] if lev == 0 else -lev * nts[a]))
            level[a] = None

    try:
        rec(0, 0)
    except Cap:
        return None, nodes[0]
    return best[0], nodes[0]


def lossless_problems(seq, n, pairs, db_sequence, db_structure):
    """List of clause names violated by a returned notation ([] = lossless)."""
    bad = []
    if db_sequence != seq:
        bad.append("lossless.sequence")
    if not isinstance(db_structure, str) or len(db_structure) != n:
        bad.append("lossless.length")
        return bad
    if any(ch != "." and ch not in LEVEL_OF for ch in db_structure):
        bad.append("lossless.alphabet")
        return bad
    got = decode(db_structure)
    if got is None:
        bad.append("lossless.balanced")
        return bad
    if got != frozenset(pairs):
        bad.append("lossless.pairs")
    return bad


def proper(structure):
    """No two crossing pairs share a level (implied by decode()==pairs for valid input, but named
    separately so a report can say so)."""
    lev = level_of_pairs(structure)
    if lev is None:
        return False
    items = sorted(lev.items())
    for a in range(len(items)):
        for b in range(a + 1, len(items)):
            if items[a][1] == items[b][1] and crosses(items[a][0], items[b][0]):
                return False
    return True


def can_lower_a_stem(structure):
    """True when some stem could move to a lower level without clashing with a crossing stem."""
    lev = level_of_pairs(structure)
    if lev is None:
        return False
    st = stems(lev.keys())
    # a stem of the *pairing* may be written on one level only in a proper stem-wise notation; take
    # the level of its outer pair
    levels = [lev[(s[0], s[1])] for s in st]
    adj = conflict_graph(st)
    for a in range(len(st)):
        used = {levels[b] for b in adj[a]}
        for cand in range(levels[a]):
            if cand not in used:
                return True
    return False


def pairs_on_round(structure):
    lev = level_of_pairs(structure)
    return frozenset(p for p, k in lev.items() if k == 0)


def pairs_in_long_stems(pairs):
    out = set()
    for i, j, n in stems(pairs):
        if n >= 2:
            for t in range(n):
                out.add((i + t, j - t))
    return frozenset(out)
