"""The seams through which the simulator owns the MILP solver as an external party.

Real code that runs: rnapolis, pulp's model building, MPS writer, PULP_CBC_CMD / HiGHS_CMD command
assembly, status mapping and solution readers, temp-file lifecycle.  Stubbed: the solver *process*
(FakeProc), PATH lookup (FakeShutil), uuid4, and - at API level - the LpSolver itself (SimSolver).
"""
import hashlib
import os
import subprocess as real_subprocess
import tempfile
import shutil as real_shutil
import uuid as real_uuid

import pulp
import pulp.apis.core as pulp_core
import pulp.apis.coin_api as pulp_coin
import pulp.apis.highs_api as pulp_highs

from . import events, zero_one

API_KINDS = [
    "ok",
    "raise_before",
    "raise_after_partial",
    "raise_after_optimal",
    "status_notsolved",
    "status_infeasible",
    "status_unbounded",
    "status_undefined",
    "ok_zero_noise",
]
API_ASSIGN = ["none", "partial", "full"]
CBC_KINDS = [
    "ok",
    "ok_zero_noise",
    "not_executable",
    "exit_nonzero",
    "no_sol_file",
    "infeasible",
    "integer_infeasible",
    "unbounded",
    "stopped_no_incumbent",
    "stopped_incumbent",
    "unknown_word",
]
HIGHS_KINDS = [
    "ok",
    "ok_zero_noise",
    "not_executable",
    "exit_minus1",
    "infeasible",
    "unbounded",
    "timelimit_no_solution",
    "timelimit_feasible",
    "sol_unreadable",
    "vanishes_after_lookup",
]
REAL_KINDS = ["ok", "not_executable"]

STATUS_OF_KIND = {
    "status_notsolved": pulp.LpStatusNotSolved,
    "status_infeasible": pulp.LpStatusInfeasible,
    "status_unbounded": pulp.LpStatusUnbounded,
    "status_undefined": pulp.LpStatusUndefined,
}

FAKE_HIGHS = "/sim/bin/highs"
ZERO_NOISE = 1.1102230246251565e-16


class HarnessError(Exception):
    """Something in the machinery (not in the code under test) went wrong."""


def self_check_attributes():
    for mod, attr in [
        (pulp_core, "shutil"),
        (pulp_core, "uuid4"),
        (pulp_coin, "subprocess"),
        (pulp_highs, "subprocess"),
        (pulp, "LpSolverDefault"),
        (pulp_coin, "pulp_cbc_path"),
    ]:
        if not hasattr(mod, attr):
            raise HarnessError("pulp seam missing: %s.%s" % (mod.__name__, attr))


def _mask(position, seed):
    """Pure function: is variable number `position` part of the partial assignment `seed`?"""
    h = hashlib.sha256(("%d|%d" % (position, seed)).encode()).digest()
    return h[0] & 1 == 1


class DerivedSolverError(pulp.PulpSolverError):
    """A solver back-end's own subclass of PulpSolverError."""


def solver_error(fault, text):
    """The PulpSolverError a failing solver raises: with a message, without any argument, or a subclass."""
    variant = fault.get("exc", "message")
    if variant == "noargs":
        return pulp.PulpSolverError()
    if variant == "subclass":
        return DerivedSolverError(text, 1)
    return pulp.PulpSolverError(text)


class SimSolver(pulp.LpSolver):
    """API-level stub solver (L1).  Its behaviour for the next solve is env.fault."""

    name = "SimSolver"

    def __init__(self, env=None, tie_offset=0, **kw):
        pulp.LpSolver.__init__(self, **kw)
        self.env = env
        self.tie_offset = tie_offset  # another solver product: equally correct, breaks ties its own way

    def available(self):
        return True

    def copy(self):
        c = SimSolver(self.env, tie_offset=self.tie_offset)
        c.msg = self.msg
        return c

    def actualSolve(self, lp, **kwargs):
        env = self.env
        if env.backend in ("sim-api", "none"):
            fault = env.next_fault()
        else:
            # the step's fault belongs to another back-end (the CBC / HiGHS process); this API-level solver sits in
            # the default-solver slot and is only consulted when the code under test turns to it as a second
            # choice (HiGHS gone or failed).  It has a behaviour of its own for the step.
            fault = dict(env.secondary_fault)
            events.fired("api.consulted_as_second_choice")
        kind = fault.get("kind", "ok")
        info = env.begin_solve("api", kind)
        if kind == "raise_before":
            events.fired("api.raise_before")
            env.end_solve(info, delivered=False, how="raise")
            raise solver_error(fault, "sim: injected failure before solving")
        model = zero_one.from_pulp(lp)
        result = env.solve_model(model, info)
        variables = [model.objects[k] for k in model.names]
        keyof = {id(v): k for k, v in model.objects.items()}
        if result["status"] == "optimal":
            chosen = result["solutions"][(fault.get("tie", 0) + self.tie_offset) % len(result["solutions"])]
            info["tie_index"] = (fault.get("tie", 0) + self.tie_offset) % len(result["solutions"])
        else:
            chosen = {k: 0 for k in model.names}
        if kind == "raise_after_partial":
            n = 0
            for pos, v in enumerate(variables):
                if _mask(pos, fault.get("partial", 0)):
                    v.varValue = float(chosen[keyof[id(v)]])
                    n += 1
            events.fired("api.raise_after_partial")
            info["partial_assigned"] = n
            env.end_solve(info, delivered=False, how="raise")
            raise solver_error(fault, "sim: injected failure after a partial result")
        if kind == "raise_after_optimal":
            # a solver that fails late: it has already recorded an Optimal status (and none, some or all of the
            # correct values) on the problem when it raises PulpSolverError, e.g. while copying the solution
            assign = fault.get("assign", "none")
            n = 0
            for pos, v in enumerate(variables):
                if assign == "full" or (assign == "partial" and _mask(pos, fault.get("partial", 0))):
                    v.varValue = float(chosen[keyof[id(v)]])
                    n += 1
            lp.assignStatus(pulp.LpStatusOptimal)
            events.fired("api.raise_after_optimal." + assign)
            info["partial_assigned"] = n
            env.end_solve(info, delivered=False, how="raise-late")
            raise solver_error(fault, "sim: injected failure after the status was recorded")
        if kind in STATUS_OF_KIND:
            assign = fault.get("assign", "none")
            # stale / misleading values: every region claims the *wrong* levels, so that a reader
            # that ignores the status produces a visibly different notation
            n = 0
            for pos, v in enumerate(variables):
                if assign == "full" or (assign == "partial" and _mask(pos, fault.get("partial", 0))):
                    v.varValue = float(1 - chosen[keyof[id(v)]]) if fault.get("invert", True) else float(chosen[keyof[id(v)]])
                    n += 1
            lp.assignStatus(STATUS_OF_KIND[kind])
            events.fired("api." + kind + "." + assign)
            info["partial_assigned"] = n
            env.end_solve(info, delivered=False, how=kind)
            return lp.status
        if kind == "ok_tolerance":
            # probe only: integrality tolerance on the ones
            if result["status"] != "optimal":
                lp.assignStatus(pulp.LpStatusInfeasible)
                env.end_solve(info, delivered=False, how="model-infeasible")
                return lp.status
            for v in variables:
                v.varValue = 0.9999999 if chosen[keyof[id(v)]] else 0.0
            lp.assignStatus(pulp.LpStatusOptimal)
            events.fired("api.ok_tolerance")
            env.end_solve(info, delivered=True, how="ok_tolerance")
            return lp.status
        noise = kind == "ok_zero_noise"
        if noise:
            # a healthy answer with the numeric texture of a real branch-and-cut code: the columns that are zero come
            # back as round-off residue far inside the integrality tolerance (1e-16), the chosen ones as exactly 1
            kind = "ok"
        if kind != "ok":
            raise HarnessError("unknown api fault kind %r" % kind)
        if result["status"] != "optimal":
            lp.assignStatus(pulp.LpStatusInfeasible)
            events.fired("api.model_infeasible")
            env.end_solve(info, delivered=False, how="model-infeasible")
            return lp.status
        opts = getattr(self, "optionsDict", None) or {}
        loose = env.within_gap(model, result, opts.get("gapRel"), opts.get("gapAbs"), fault.get("tie", 0), info)
        if loose is not None:
            chosen = loose
            events.fired("api.ok_within_requested_gap")
        if env.stops_at_requested_limit(getattr(self, "timeLimit", None) or opts.get("timeLimit") or opts.get("maxNodes"),
                                        fault.get("tie", 0), info):
            inc = zero_one.feasible_nonoptimal(model, result, fault.get("tie", 0))
            if inc is not None:
                for v in variables:
                    v.varValue = float(inc[keyof[id(v)]])
                lp.assignStatus(pulp.LpStatusOptimal, pulp.LpSolutionIntegerFeasible)
                events.fired("api.stopped_at_requested_time_limit")
                info["stopped_at_requested_limit"] = True
                env.end_solve(info, delivered=False, how="requested-time-limit")
                return lp.status
        for v in variables:
            v.varValue = float(chosen[keyof[id(v)]]) or (ZERO_NOISE if noise else 0.0)
        lp.assignStatus(pulp.LpStatusOptimal)
        events.fired("api.ok_zero_noise" if noise else "api.ok")
        env.end_solve(info, delivered=True, how="ok")
        return lp.status


class FakeShutil:
    """Stands in for the `shutil` name inside pulp.apis.core: PATH lookup answers from the run's
    configuration."""

    def __init__(self, env):
        self.env = env

    def which(self, cmd, *a, **k):
        env = self.env
        if cmd == "highs" or cmd == FAKE_HIGHS:
            r = FAKE_HIGHS if env.highs_on_path else None
            if r is not None and env.highs_lookups_left is not None:
                # flaky PATH: the executable is found by the first look-up(s) and gone afterwards (uninstalled,
                # unmounted) - pulp then raises PulpSolverError("cannot execute") when asked to solve
                if env.highs_lookups_left <= 0:
                    r = None
                    events.fired("highs.vanishes_after_lookup")
                else:
                    env.highs_lookups_left -= 1
        elif cmd == pulp_coin.pulp_cbc_path:
            r = cmd if env.cbc_executable else None
        else:
            r = None
        events.log("which", [os.path.basename(str(cmd)), r is not None])
        return r

    def __getattr__(self, name):
        return getattr(real_shutil, name)


class FakeSubprocess:
    DEVNULL = real_subprocess.DEVNULL
    PIPE = real_subprocess.PIPE

    def __init__(self, env, flavour):
        self.env = env
        self.flavour = flavour

    def Popen(self, argv, **kw):
        env = self.env
        short = [os.path.basename(a) if "/" in a and not a.startswith("--") else a for a in argv]
        short = [a.split("=")[0] + "=" + os.path.basename(a.split("=", 1)[1]) if a.startswith("--") and "=" in a else a for a in short]
        events.log("popen", short)
        if env.backend == "real-cbc" and self.flavour == "cbc":
            return RealProcProxy(env, argv, kw)
        if self.flavour == "cbc":
            return FakeCbcProc(env, argv)
        return FakeHighsProc(env, argv)

    def __getattr__(self, name):
        return getattr(real_subprocess, name)


class RealProcProxy:
    """The real bundled CBC binary, observed (not altered): after wait() the stub reads the first
    line of the solution file to learn what was delivered."""

    def __init__(self, env, argv, kw):
        self.env = env
        self.argv = argv
        self.info = env.begin_solve("real-cbc", "ok")
        self.proc = real_subprocess.Popen(argv, **kw)

    def wait(self):
        code = self.proc.wait()
        sol = self.argv[self.argv.index("-solution") + 1]
        first = ""
        if os.path.exists(sol):
            with open(sol) as f:
                first = f.readline().strip()
        delivered = code == 0 and first.split()[:1] == ["Optimal"]
        self.info["real_first_line"] = first
        # stub fidelity, per solve: the exact 0-1 stub solves the very MPS file the real binary was given; the two
        # optimal values must agree (compared by the engine; models beyond the stub's reach are skipped)
        self.info["real_value"] = self.info["stub_value"] = None
        if delivered and "objective value" in first:
            try:
                self.info["real_value"] = float(first.split("objective value")[1].split()[0])
                model = zero_one.from_mps(self.argv[1], maximise="-max" in self.argv)
                res = self.env.solve_model(model, {})
                if res["status"] == "optimal":
                    self.info["stub_value"] = float(res["value"])
                else:
                    self.info["stub_value"] = "infeasible"
            except (zero_one.NodeCap, zero_one.Unsupported, zero_one.BadModelFile, ValueError, IndexError):
                self.info["stub_value"] = None
        events.fired("real-cbc.ok" if delivered else "real-cbc.other")
        # the objective value is logged rounded; the assignment itself is judged by the oracle
        events.log("wait", code)
        self.env.end_solve(self.info, delivered=delivered, how="real:" + (first.split()[0] if first else "nofile"))
        return code


def _cbc_sol_lines(model, assignment, star=False):
    lines = []
    k = 0
    for rname, coefs, _, _ in model.rows:
        act = sum(c * assignment[v] for v, c in coefs.items())
        lines.append("%s%7d %s %15s %23s\n" % ("** " if star and k % 2 == 0 else "", k, rname, _fmt(act), "0"))
        k += 1
    for k, v in enumerate(model.names):
        lines.append("%s%7d %s %15s %23s\n" % ("** " if star and k % 3 == 0 else "", k, v, _fmt(assignment[v]), _fmt(model.obj.get(v, 0))))
    return lines


def _cbc_limit_option(argv):
    """A work limit on a CBC command line: -sec[onds], -maxN[odes], -maxS[olutions], -maxIt[erations] <n>."""
    for k, tok in enumerate(argv[:-1]):
        name = tok.lstrip("-").lower()
        if tok.startswith("-") and (name.startswith("sec") or name.startswith("maxn") or name.startswith("maxs")
                                    or name.startswith("maxit")):
            return argv[k + 1]
    return None


def _cbc_gap_options(argv):
    """Stopping tolerances on a CBC command line: -ratio[Gap] <fraction>, -allow[ableGap] <absolute>."""
    rel = ab = None
    for k, tok in enumerate(argv[:-1]):
        name = tok.lstrip("-").lower()
        if tok.startswith("-") and name.startswith("ratio"):
            rel = argv[k + 1]
        elif tok.startswith("-") and name.startswith("allow"):
            ab = argv[k + 1]
    return rel, ab


def _fmt(x):
    x = float(x)
    return "%d" % int(x) if x == int(x) else repr(x)


class FakeCbcProc:
    """Simulated CBC process: reads the MPS file pulp wrote, solves it exactly, writes (or does not
    write) the solution file in the format pulp's real reader parses."""

    def __init__(self, env, argv):
        self.env = env
        self.argv = argv

    def wait(self):
        env = self.env
        if env.backend in ("cbc-wrapper", "none"):
            fault = env.next_fault()
        else:
            # the step's fault plan belongs to another back-end; a CBC process started in such a step is one the
            # code under test turned to on its own (second choice, or pulp's import-time default): it is healthy
            fault = {"kind": "ok", "tie": env.secondary_fault.get("tie", 0)}
            events.fired("cbc.consulted_as_second_choice")
        kind = fault.get("kind", "ok")
        cbc_noise = kind == "ok_zero_noise"
        if cbc_noise:
            kind = "ok"
        info = env.begin_solve("cbc", "ok_zero_noise" if cbc_noise else kind)
        argv = self.argv
        mps = argv[1]
        sol = argv[argv.index("-solution") + 1]
        if kind == "exit_nonzero":
            events.fired("cbc.exit_nonzero")
            events.log("wait", 1)
            env.end_solve(info, delivered=False, how="exit1")
            return 1
        try:
            model = zero_one.from_mps(mps, maximise="-max" in argv)
        except zero_one.BadModelFile:
            # what the real binary does with a file it cannot read: errors on the console, no solution file
            events.fired("cbc.model_file_rejected")
            events.log("wait", 0)
            env.end_solve(info, delivered=False, how="model-file-rejected")
            return 0
        result = env.solve_model(model, info)
        if kind == "no_sol_file":
            events.fired("cbc.no_sol_file")
            events.log("wait", 0)
            env.end_solve(info, delivered=False, how="nosol")
            return 0
        zeros = {v: 0 for v in model.names}
        if result["status"] == "optimal":
            nsol = len(result["solutions"])
            chosen = result["solutions"][fault.get("tie", 0) % nsol]
            info["tie_index"] = fault.get("tie", 0) % nsol
            value = result["value"]
        else:
            chosen, value = zeros, 0
        wrong = {v: 1 - chosen[v] for v in model.names}
        delivered = False
        if kind == "ok" and result["status"] == "optimal" and env.stops_at_requested_limit(
                _cbc_limit_option(argv), fault.get("tie", 0), info):
            inc = zero_one.feasible_nonoptimal(model, result, fault.get("tie", 0))
            if inc is not None:
                head = "Stopped on time - objective value %.8f\n" % float(model.evaluate(inc))
                body = _cbc_sol_lines(model, inc)
                with open(sol, "w") as f:
                    f.write(head)
                    f.writelines(body)
                events.fired("cbc.stopped_at_requested_time_limit")
                events.log("wrote", ["sol", len(head) + sum(map(len, body))])
                events.log("wait", 0)
                info["stopped_at_requested_limit"] = True
                env.end_solve(info, delivered=False, how="requested-time-limit")
                return 0
        if kind == "ok":
            if result["status"] == "optimal":
                rel, ab = _cbc_gap_options(argv)
                loose = env.within_gap(model, result, rel, ab, fault.get("tie", 0), info)
                if loose is not None:
                    chosen, value = loose, model.evaluate(loose)
                    events.fired("cbc.ok_within_requested_gap")
                head = "Optimal - objective value %.8f\n" % float(value)
                body = _cbc_sol_lines(model, {k: (x or ZERO_NOISE) for k, x in chosen.items()} if cbc_noise else chosen)
                delivered = True
                events.fired("cbc.ok_zero_noise" if cbc_noise else "cbc.ok")
            else:
                head = "Infeasible - objective value 0.00000000\n"
                body = _cbc_sol_lines(model, zeros, star=True)
                events.fired("cbc.model_infeasible")
        elif kind == "infeasible":
            head = "Infeasible - objective value 0.00000000\n"
            body = _cbc_sol_lines(model, wrong, star=True)
            events.fired("cbc.infeasible")
        elif kind == "integer_infeasible":
            head = "Integer infeasible - objective value 0.00000000\n"
            body = _cbc_sol_lines(model, wrong, star=True)
            events.fired("cbc.integer_infeasible")
        elif kind == "unbounded":
            head = "Unbounded - objective value 0.00000000\n"
            body = _cbc_sol_lines(model, wrong)
            events.fired("cbc.unbounded")
        elif kind == "stopped_no_incumbent":
            # CBC's own wording when it gives up without a usable answer; pulp maps it to NotSolved
            head = "Stopped on iterations or time - objective value 0.00000000\n"
            body = _cbc_sol_lines(model, wrong)
            events.fired("cbc.stopped_no_incumbent")
        elif kind == "unknown_word":
            head = "Segmentation - objective value 0.00000000\n"
            body = _cbc_sol_lines(model, wrong)
            events.fired("cbc.unknown_word")
        elif kind == "stopped_incumbent":
            inc = None
            if result["status"] == "optimal":
                inc = zero_one.feasible_nonoptimal(model, result, fault.get("tie", 0))
            if inc is None:
                inc = chosen if result["status"] == "optimal" else None
                info["incumbent"] = "optimal-itself"
            else:
                info["incumbent"] = "suboptimal"
            if inc is None:
                head = "Infeasible - objective value 0.00000000\n"
                body = _cbc_sol_lines(model, zeros, star=True)
                events.fired("cbc.model_infeasible")
            else:
                head = "Stopped on time - objective value %.8f\n" % float(model.evaluate(inc))
                body = _cbc_sol_lines(model, inc)
                delivered = True  # pulp maps this to Optimal + 'integer feasible'
                events.fired("cbc.stopped_incumbent." + info["incumbent"])
        else:
            raise HarnessError("unknown cbc fault kind %r" % kind)
        with open(sol, "w") as f:
            f.write(head)
            f.writelines(body)
        events.log("wrote", ["sol", len(head) + sum(map(len, body))])
        events.log("wait", 0)
        env.end_solve(info, delivered=delivered, how=kind)
        return 0


class FakeHighsProc:
    """Simulated HiGHS process (the binary is not installed in this sandbox): options file -> log
    file + solution file in the formats HiGHS_CMD's reader parses."""

    def __init__(self, env, argv):
        self.env = env
        self.argv = argv

    def wait(self):
        env = self.env
        if env.backend in ("highs-wrapper", "none"):
            fault = env.next_fault()
        else:
            fault = {"kind": "ok", "tie": env.secondary_fault.get("tie", 0)}
            events.fired("highs.consulted_as_second_choice")
        kind = fault.get("kind", "ok")
        highs_noise = kind == "ok_zero_noise"
        if highs_noise:
            kind = "ok"
        info = env.begin_solve("highs", "ok_zero_noise" if highs_noise else kind)
        argv = self.argv
        mps = argv[1]
        optfile = [a.split("=", 1)[1] for a in argv if a.startswith("--options_file=")][0]
        opts = {}
        with open(optfile) as f:
            for line in f:
                if "=" in line:
                    k, v = line.strip().split("=", 1)
                    opts[k] = v
        sol, logf = opts["solution_file"], opts["log_file"]
        if kind == "vanishes_after_lookup":
            # reached only when the code under test looked the executable up less often than the fault allows
            # for: the process then fails to start properly - still a solver that delivers nothing
            events.fired("highs.vanishes_after_lookup")
            events.log("wait", -1)
            env.end_solve(info, delivered=False, how="exit-1")
            return -1
        if kind == "exit_minus1":
            events.fired("highs.exit_minus1")
            events.log("wait", -1)
            env.end_solve(info, delivered=False, how="exit-1")
            return -1
        try:
            model = zero_one.from_mps(mps)
        except zero_one.BadModelFile:
            events.fired("highs.model_file_rejected")
            events.log("wait", -1)
            env.end_solve(info, delivered=False, how="model-file-rejected")
            return -1
        result = env.solve_model(model, info)
        zeros = {v: 0 for v in model.names}
        if result["status"] == "optimal":
            nsol = len(result["solutions"])
            chosen = result["solutions"][fault.get("tie", 0) % nsol]
            info["tie_index"] = fault.get("tie", 0) % nsol
            value = result["value"]
        else:
            chosen, value = None, 0
        delivered = False
        write_solution = None
        rows_marker = True
        cli0 = dict(a[2:].split("=", 1) for a in argv if a.startswith("--") and "=" in a)
        limit = None
        for key in ("time_limit", "mip_max_nodes", "mip_max_leaves", "mip_max_improving_sols", "mip_max_stall_nodes"):
            limit = limit or cli0.get(key, opts.get(key))
        if kind == "ok" and chosen is not None and env.stops_at_requested_limit(limit, fault.get("tie", 0), info) and \
                zero_one.feasible_nonoptimal(model, result, fault.get("tie", 0)) is not None:
            kind = "timelimit_feasible"
            info["stopped_at_requested_limit"] = True
            events.fired("highs.stopped_at_requested_time_limit")
        if kind in ("ok", "sol_unreadable") and chosen is not None:
            status, solstatus = "Optimal", "feasible"
            cli = dict(a[2:].split("=", 1) for a in argv if a.startswith("--") and "=" in a)
            loose = env.within_gap(model, result, opts.get("mip_rel_gap", cli.get("mip_rel_gap")),
                                   opts.get("mip_abs_gap", cli.get("mip_abs_gap")), fault.get("tie", 0), info)
            if loose is not None:
                chosen, value = loose, model.evaluate(loose)
                events.fired("highs.ok_within_requested_gap")
            write_solution = chosen
            if kind == "sol_unreadable":
                rows_marker = False
                events.fired("highs.sol_unreadable")
            else:
                delivered = True
                events.fired("highs.ok_zero_noise" if highs_noise else "highs.ok")
        elif kind in ("ok", "sol_unreadable", "timelimit_feasible") and chosen is None:
            status, solstatus = "Infeasible", "-"
            events.fired("highs.model_infeasible")
        elif kind == "infeasible":
            status, solstatus = "Infeasible", "-"
            events.fired("highs.infeasible")
        elif kind == "unbounded":
            status, solstatus = "Unbounded", "-"
            events.fired("highs.unbounded")
        elif kind == "timelimit_no_solution":
            status, solstatus = "Time limit reached", "-"
            events.fired("highs.timelimit_no_solution")
        elif kind == "timelimit_feasible":
            inc = zero_one.feasible_nonoptimal(model, result, fault.get("tie", 0))
            info["incumbent"] = "suboptimal" if inc is not None else "optimal-itself"
            if inc is None:
                inc = chosen
            status, solstatus = "Time limit reached", "feasible"
            write_solution = inc
            value = model.evaluate(inc)
            # an incumbent after a limit the code under test itself asked for is not a delivered optimum
            delivered = not info.get("stopped_at_requested_limit")
            events.fired("highs.timelimit_feasible." + info["incumbent"])
        else:
            raise HarnessError("unknown highs fault kind %r" % kind)
        log_lines = [
            "Running HiGHS (simulated)",
            "Solving report",
            "  Status            %s" % status,
            "  Primal bound      %s" % _fmt(value),
            "  Dual bound        %s" % _fmt(value),
            "  Solution status   %s" % solstatus,
            "                    %s (objective)" % _fmt(value),
        ]
        with open(logf, "w") as f:
            f.write("\n".join(log_lines) + "\n")
        if write_solution is not None:
            out = ["Model status", status, "", "# Primal solution values", "Feasible",
                   "Objective %s" % _fmt(value), "# Columns %d" % len(model.names)]
            out += ["%s %s" % (v, _fmt(write_solution[v] or (ZERO_NOISE if highs_noise else 0))) for v in model.names]
            if rows_marker:
                out.append("# Rows %d" % len(model.rows))
                for rname, coefs, _, _ in model.rows:
                    out.append("%s %s" % (rname, _fmt(sum(c * write_solution[v] for v, c in coefs.items()))))
            with open(sol, "w") as f:
                f.write("\n".join(out) + "\n")
            events.log("wrote", ["highs-sol", len(out)])
        events.log("wrote", ["highs-log", len(log_lines)])
        events.log("wait", 0)
        env.end_solve(info, delivered=delivered, how=kind)
        return 0


class SimEnv:
    """Installs every patch for the duration of a run and restores the process afterwards.  Each
    environment gets a private, initially empty temp directory (removed on exit) so that a file left
    behind by one execution can never be read by another."""

    _serial = 0

    def __init__(self, tmpdir, run_id="run", loglevel=None):
        self.tmpdir = tmpdir
        self.run_id = run_id
        # the process' log verbosity is part of the simulated world (the package reads LOGLEVEL at import; a caller
        # may have configured logging): "off" (the harness default), "INFO" or "DEBUG", with a null handler so
        # that nothing is written anywhere
        self.loglevel = loglevel or "off"
        self.uuid_counter = 0
        self.highs_on_path = False
        self.cbc_executable = True
        self.backend = "sim-api"
        self.faults = [{"kind": "ok"}]
        self.fault_cursor = 0
        self.solves = []
        self.model_cache = {}
        self.solver_objects = {}
        self._saved = None

    # -- context management -------------------------------------------------------------------
    def __enter__(self):
        self_check_attributes()
        import logging

        root = logging.getLogger()
        self._saved_logging = (root.manager.disable, root.level, list(root.handlers))
        if self.loglevel != "off":
            for h in list(root.handlers):
                root.removeHandler(h)
            root.addHandler(logging.NullHandler())
            root.setLevel(getattr(logging, self.loglevel))
            logging.disable(logging.NOTSET)
            events.fired("loglevel." + self.loglevel)
        self._saved = (
            pulp_core.shutil,
            pulp_core.uuid4,
            pulp_coin.subprocess,
            pulp_highs.subprocess,
            pulp.LpSolverDefault,
            os.environ.get("TMPDIR"),
            os.environ.get("TMP"),
        )
        SimEnv._serial += 1
        self.base_tmpdir = self.tmpdir
        self.tmpdir = os.path.join(self.base_tmpdir, "env-%d" % SimEnv._serial)
        # a directory of this name can only be the remains of an earlier forked run that was killed by its time
        # limit before it could clean up (the serial number lives in the forked child and is lost with it)
        real_shutil.rmtree(self.tmpdir, ignore_errors=True)
        os.mkdir(self.tmpdir)
        os.environ["TMPDIR"] = self.tmpdir
        os.environ.pop("TMP", None)
        # Python's tempfile module caches its directory on first use: point it at the private directory
        # for the duration of the run and restore it afterwards
        self._saved_tempdir = tempfile.tempdir
        tempfile.tempdir = self.tmpdir
        pulp_core.shutil = FakeShutil(self)
        pulp_core.uuid4 = self.uuid4
        pulp_coin.subprocess = FakeSubprocess(self, "cbc")
        pulp_highs.subprocess = FakeSubprocess(self, "highs")
        return self

    def __exit__(self, *exc):
        (pulp_core.shutil, pulp_core.uuid4, pulp_coin.subprocess, pulp_highs.subprocess,
         pulp.LpSolverDefault, tmpdir, tmp) = self._saved
        if tmpdir is None:
            os.environ.pop("TMPDIR", None)
        else:
            os.environ["TMPDIR"] = tmpdir
        if tmp is not None:
            os.environ["TMP"] = tmp
        tempfile.tempdir = self._saved_tempdir
        import logging

        root = logging.getLogger()
        disabled, level, handlers = self._saved_logging
        for h in list(root.handlers):
            root.removeHandler(h)
        for h in handlers:
            root.addHandler(h)
        root.setLevel(level)
        logging.disable(disabled)
        real_shutil.rmtree(self.tmpdir, ignore_errors=True)
        self.tmpdir = self.base_tmpdir
        return False

    # -- seams ------------------------------------------------------------------------------------
    def uuid4(self):
        self.uuid_counter += 1
        h = hashlib.sha256(("%s|uuid|%d" % (self.run_id, self.uuid_counter)).encode()).digest()
        u = real_uuid.UUID(bytes=h[:16], version=4)
        events.log("uuid4", u.hex[:8])
        return u

    def configure(self, backend, highs_on_path=False, cbc_executable=True, faults=None):
        """Set the world for the next step.  Returns (default_solver, argument_solver)."""
        self.backend = backend
        self.highs_on_path = highs_on_path
        self.cbc_executable = cbc_executable
        self.faults = list(faults) if faults else [{"kind": "ok"}]
        self.fault_cursor = 0
        self.secondary_fault = {"kind": "ok", "tie": self.faults[0].get("tie", 0)}
        self.highs_lookups_left = None
        if backend == "highs-wrapper" and self.faults[0].get("kind") == "vanishes_after_lookup":
            self.highs_lookups_left = int(self.faults[0].get("lookups", 1))
        # one solver object per back-end for the whole run: like the process-global default solver of a
        # real process, it is reused from one conversion to the next, so state the code under test leaves
        # on it (it sets .msg) travels along
        if backend == "none":
            # a world without any MILP back-end: no default solver, nothing called highs on PATH and the bundled
            # CBC binary not executable either - so that code which goes looking for a solver on its own (instead
            # of reading pulp.LpSolverDefault) finds none, as on the machines this configuration stands for
            self.highs_on_path = False
            self.cbc_executable = False
            return None
        key = "cbc" if backend in ("cbc-wrapper", "real-cbc") else backend
        solver = self.solver_objects.get(key)
        if solver is None:
            if backend == "sim-api":
                solver = SimSolver(self)
            elif key == "cbc":
                solver = pulp.PULP_CBC_CMD(msg=False)
                if solver.tmpDir != self.tmpdir:
                    raise HarnessError("PULP_CBC_CMD did not pick up the scratch TMPDIR")
            elif backend == "highs-wrapper":
                solver = pulp.HiGHS_CMD(msg=False)
            else:
                raise HarnessError("unknown backend %r" % backend)
            self.solver_objects[key] = solver
        return solver

    def decoy_solver(self):
        """The persistent API-level stub, for the slot that should *not* be consulted in a step."""
        if "sim-api" not in self.solver_objects:
            self.solver_objects["sim-api"] = SimSolver(self)
        return self.solver_objects["sim-api"]

    def other_solver(self):
        """A second, distinct API-level solver object that picks the next of the optima (persistent for the run)."""
        if "sim-api-other" not in self.solver_objects:
            self.solver_objects["sim-api-other"] = SimSolver(self, tie_offset=1)
        return self.solver_objects["sim-api-other"]

    def set_default(self, solver):
        pulp.LpSolverDefault = solver

    def next_fault(self):
        f = self.faults[min(self.fault_cursor, len(self.faults) - 1)]
        self.fault_cursor += 1
        return f

    def begin_solve(self, layer, kind):
        info = {"layer": layer, "kind": kind, "index": len(self.solves)}
        events.log("solve.begin", [layer, kind])
        return info

    def solve_model(self, model, info):
        key = (tuple(model.names), tuple(sorted((k, str(v)) for k, v in model.obj.items())),
               tuple((r[0], tuple(sorted((k, str(v)) for k, v in r[1].items())), r[2], str(r[3])) for r in model.rows),
               model.maximise)
        result = self.model_cache.get(key)
        if result is None:
            try:
                result = zero_one.solve(model)
            except zero_one.NodeCap:
                raise
            if len(self.model_cache) > 64:
                self.model_cache.clear()
            self.model_cache[key] = result
        info["model_status"] = result["status"]
        info["model_value"] = None if result["value"] is None else float(result["value"])
        info["n_optima"] = len(result["solutions"])
        info["truncated"] = result["truncated"]
        info["nvars"] = len(model.names)
        info["nrows"] = len(model.rows)
        return result

    def stops_at_requested_limit(self, limit, tie, info):
        """The code under test asked the solver to give up after `limit` seconds (it does not today).  On a slow
        machine, or for a big enough input, a real solver then stops at the limit with whatever feasible assignment
        it has - and pulp still reports status Optimal (solution status 'integer feasible').  The simulated solver
        does so for every other tie-break value; the request is recorded either way."""
        if limit is None:
            return False
        try:
            if float(limit) <= 0:
                return False
        except (TypeError, ValueError):
            return False
        info["requested_time_limit"] = str(limit)
        return tie % 2 == 0

    def within_gap(self, model, result, rel, ab, tie, info):
        """The code under test asked the solver to stop within a gap (it does not today): the simulated solver
        then behaves as a real one is entitled to and returns the worst answer inside that gap it can find,
        still labelled optimal."""
        if rel is None and ab is None:
            return None
        tol = zero_one.gap_tolerance(rel, ab, result["value"])
        info["requested_gap"] = [str(rel), str(ab)]
        if tol <= 0:
            return None
        loose = zero_one.within_gap(model, result, tol, tie)
        info["within_gap"] = loose is not None
        return loose

    def end_solve(self, info, delivered, how):
        info["delivered"] = delivered
        info["how"] = how
        self.solves.append(info)
        events.log("solve.end", [info["layer"], how, delivered])

    def leftover_files(self):
        return sorted(os.listdir(self.tmpdir))
