"""C02 - the pseudoknot order assignment is proper and optimal, *for every optimum the solver may
return* and through every back-end.

The nondeterminism source put behind the seam is the solver's choice among equally optimal answers
(and which back-end answers).  For each structure the stub enumerates all optimal solutions of the
model the code emitted and plays each of them back; the oracle is an independent exact optimiser
over proper level assignments that sees only the pairs.
"""
import copy

from . import oracles, rng, shrink, solve_engine, structures

NAME = "C02"
LEVEL = "exploration"

PLAN = {
    "quick": {"max_n": 8, "seeded": 4000, "chunk": 24, "budget": None, "tie_cap": 48,
              "topology": (4, ["ones", "alt12", "falling"], [0, 1])},
    "thorough": {"max_n": 10, "seeded": None, "chunk": 64, "budget": 600, "tie_cap": 64,
                 "topology": (5, ["ones", "twos", "alt12", "alt21", "rising", "falling"], [0, 1])},
}

ASSUMPTIONS = [
    "optimality is judged against an independent exact branch-and-bound over proper stem-level assignments "
    "(<= 9 stems; a structure on which the reference hits its node cap is not judged and is counted)",
    "the stub solver returns exactly the optimal solutions of the model the code emitted; its fidelity is "
    "cross-checked against the real bundled CBC binary on a sample (objective equal, answer in the enumerated set)",
    "inputs are sampled (seeded families) plus every matching on <= N positions (N = 8 quick, 10 thorough); "
    "6EK0-size inputs are out of reach of the exact oracle",
]

_MATCHINGS = {}


def matchings(max_n):
    """The enumerated part of the workload: every matching on <= max_n positions as (n, pairs) and, appended, every
    stem topology of the tier's plan as ("topology", structure)."""
    if max_n not in _MATCHINGS:
        out = []
        for n in range(1, max_n + 1):
            for m in structures.all_matchings(n):
                out.append((n, m))
        tier = [t for t, p in PLAN.items() if p["max_n"] == max_n][0]
        k, regimes, gaps = PLAN[tier]["topology"]
        for st in structures.topology_structures(k, regimes, gaps):
            out.append(("topology", st))
        _MATCHINGS[max_n] = out
    return _MATCHINGS[max_n]


def preload(tier):
    matchings(PLAN[tier]["max_n"])
    solve_engine.common()


def total_runs(tier):
    plan = PLAN[tier]
    if plan["seeded"] is None:
        return None
    return len(matchings(plan["max_n"])) + plan["seeded"]


def gen_structure(seed, tier, i):
    plan = PLAN[tier]
    ms = matchings(plan["max_n"])
    if i < len(ms):
        n, m = ms[i]
        if n == "topology":
            return m
        return {"triples": structures.matching_triples(n, m), "family": "matching:%d" % n}
    s = rng.stream(NAME, tier, seed, i, "structure")
    mode = s.random()
    if mode < 0.12:
        return structures.gen_multi_group(s, 2, 3)
    if mode < 0.27:
        return structures.gen_many(s, 10, 16)
    if mode < 0.35:
        return structures.gen_broom(s)
    if mode < 0.3515:
        return structures.gen_far_knot(s)
    if 0.40 <= mode < 0.43:
        return structures.gen_gapped_helix(s)
    if mode < 0.3535:
        # ribosomal-RNA size: about 4 000 positions and 300-450 stems (the 6EK0 test input has 3 929 and 410)
        return structures.gen_large(s, 300, 450)
    if mode < 0.38:
        return structures.gen_large(s)
    if mode < 0.395:
        # 10-13 (nearly) mutually crossing stems: the optimum itself needs two-digit levels and the letter
        # brackets.  Beyond both exact 0-1 stubs; answered by the real CBC binary only (see phase_a)
        return structures.gen_near_ladder(s)
    return structures.gen_structure(s, max_stems=8, max_len=4, knotted_bias=0.85, template_p=0.3)


def phase_a(seed, tier, i, st):
    cfg = rng.stream(NAME, tier, seed, i, "config")
    n, pairs = oracles.pairs_of_triples(st["triples"])
    knotted = oracles.is_knotted(pairs)
    base = {"triples": st["triples"], "op": "dot_bracket", "route": cfg.choice(solve_engine.ROUTES)}
    loglevel = cfg.choice(["off", "off", "INFO", "DEBUG"])
    if st["family"].startswith("nearladder"):
        steps = [dict(base, via=cfg.choice(["property", "argument"]), backend="real-cbc", fault={"kind": "ok"})]
        return {"property": NAME, "family": st["family"], "steps": steps, "loglevel": loglevel}
    steps = [dict(base, via="property", backend="sim-api", fault={"kind": "ok", "tie": 0})]
    if knotted:
        # (a third of the healthy answers through the wrappers carry round-off residue on the zero columns)
        steps.append(dict(base, via="argument", backend="cbc-wrapper",
                          fault={"kind": cfg.choice(["ok", "ok", "ok_zero_noise"]), "tie": cfg.randrange(1 << 12)}))
        steps.append(dict(base, via="property", backend="highs-wrapper",
                          fault={"kind": cfg.choice(["ok", "ok", "ok_zero_noise"]), "tie": cfg.randrange(1 << 12)}))
        if i % 6 == 0:
            steps.append(dict(base, via=cfg.choice(["property", "argument"]), backend="real-cbc", fault={"kind": "ok"}))
    else:
        steps.append(dict(base, via="argument", backend=cfg.choice(["sim-api", "cbc-wrapper", "highs-wrapper"]),
                          fault={"kind": "ok", "tie": 0}))
    if knotted and i % 5 == 0:
        # history: an earlier conversion in the same process met a solver failure.  Not judged itself (that is
        # C13's business); what is judged is that the *following* healthy conversions are still optimal, i.e.
        # that nothing sticky (a 'solver is broken' flag, a changed solver option) survives the failure.
        warm = structures.layout(structures.TEMPLATES["htype"], [1, 1], [0, 0, 0, 0, 0])
        backend, kind = cfg.choice([("sim-api", "raise_before"), ("sim-api", "status_infeasible"),
                                    ("cbc-wrapper", "exit_nonzero"), ("cbc-wrapper", "infeasible"),
                                    ("highs-wrapper", "exit_minus1"), ("none", "ok")])
        steps.insert(0, {"triples": warm, "op": "dot_bracket", "via": "property", "backend": backend,
                         "fault": {"kind": kind, "assign": "none", "tie": 0}, "unjudged": True})
        if backend != "none":
            # ... and the very next conversion asks the same back-end (same solver object, default-solver slot left
            # as the failed conversion left it)
            steps.insert(1, dict(base, via="property", backend=backend, fault={"kind": "ok", "tie": cfg.randrange(1 << 12)}))
    if knotted and i % 4 == 1:
        # history on ONE object: conversions that ended in the first-come-first-served fallback (no solver given,
        # a solver that fails) must not make a later conversion with a healthy solver sub-optimal.  Only explicit
        # convert_to_dot_bracket(solver) calls come first - BpSeq.dot_bracket memoises its first answer by design,
        # so it is asked last.
        first = cfg.choice([("none", "ok"), ("sim-api", "raise_before"), ("sim-api", "status_infeasible"),
                            ("cbc-wrapper", "no_sol_file"), ("highs-wrapper", "timelimit_no_solution")])
        obj = {"triples": st["triples"], "op": "dot_bracket", "object": "same", "route": base["route"]}
        steps.append(dict(obj, via="argument", backend=first[0], fault={"kind": first[1], "assign": "full", "tie": 0},
                          unjudged=True))
        steps.append(dict(obj, via="argument", backend=cfg.choice(["sim-api", "cbc-wrapper"]),
                          fault={"kind": "ok", "tie": cfg.randrange(1 << 12)}))
        steps.append(dict(obj, via="property", backend="sim-api", fault={"kind": "ok", "tie": cfg.randrange(1 << 12)}))
    if knotted and i % 5 == 3:
        # an answer pulp calls Optimal although the solver merely stopped with a feasible assignment of its own accord:
        # nothing says it is optimal, but "crossing stems never share a bracket level" has to hold for it too
        steps.append(dict(base, via="argument", backend="cbc-wrapper", proper_only=True,
                          fault={"kind": "stopped_incumbent", "tie": cfg.randrange(1 << 12)}))
        steps.append(dict(base, via="property", backend="highs-wrapper", proper_only=True,
                          fault={"kind": "timelimit_feasible", "tie": cfg.randrange(1 << 12)}))
    if knotted and i % 3 == 2 and len(st["triples"]) <= 400 and not st["family"].startswith("farknot"):
        # derived objects: what the library builds from this structure has a notation of its own to get right
        stem_list = oracles.stems(pairs)
        hows = ["from_fcfs"]
        if any(L == 1 for _, _, L in stem_list):
            hows.append("without_isolated")
        if len(stem_list) <= 6:  # all_dot_brackets enumerates permutations of every knotted group
            hows.append("from_listed")
        for how in hows:
            steps.append(dict(base, op="derived:" + how, via="property", backend="sim-api", warm=cfg.random() < 0.7,
                              fault={"kind": "ok", "tie": cfg.randrange(1 << 12)}))
    return {"property": NAME, "family": st["family"], "steps": steps, "loglevel": loglevel}


def tie_indexes(n_optima, cap):
    if n_optima <= cap:
        return list(range(1, n_optima))
    # evenly spread sample that includes the last one
    idx = sorted({(k * (n_optima - 1)) // (cap - 1) for k in range(1, cap)})
    return [t for t in idx if t != 0]


def execute_run(run, tmpdir):
    observations, digest, counters, leftovers = solve_engine.execute(run, tmpdir)
    violations = solve_engine.judge_c02(run, observations)
    for v in violations:
        v["signature"] = signature(v, run)
    return {"violations": violations, "digest": digest, "counters": counters, "observations": observations,
            "steps": len(run["steps"])}


def run_index(seed, tier, i, tmpdir):
    plan = PLAN[tier]
    st = gen_structure(seed, tier, i)
    run_a = phase_a(seed, tier, i, st)
    res_a = execute_run(run_a, tmpdir)
    n, pairs = oracles.pairs_of_triples(st["triples"])
    knotted = oracles.is_knotted(pairs)
    out = {"index": i, "violations": list(res_a["violations"]), "counters": dict(res_a["counters"]),
           "steps": res_a["steps"], "family": st["family"], "knotted": knotted, "coverage": [],
           "unjudged": 0, "fidelity_mismatch": 0, "n_optima": 0, "truncated": 0, "discards": 0}
    digests = [res_a["digest"]]
    for v in out["violations"]:
        v["run"] = run_a
    sig = oracles.graph_signature(pairs)
    notations = set()
    real_notations = []
    one_solve_each = True
    for step, obs in zip(run_a["steps"], res_a["observations"]):
        if step.get("unjudged"):
            continue
        if obs.get("discard"):
            out["discards"] += 1
            continue
        if len(obs.get("solves") or []) > 1:
            one_solve_each = False  # the code under test splits a conversion into several solves
        for sv in obs.get("solves") or []:
            rv, tv = sv.get("real_value"), sv.get("stub_value")
            if rv is not None and tv is not None:
                out["fidelity_values_compared"] = out.get("fidelity_values_compared", 0) + 1
                if tv == "infeasible" or abs(abs(rv) - abs(tv)) > 1e-6:
                    out["fidelity_mismatch"] += 1
                    out["fidelity_example"] = {"real_objective": rv, "stub_objective": tv, "model": [sv.get("nvars"), sv.get("nrows")]}
        if knotted and obs["db"]:
            if step["backend"] == "real-cbc":
                real_notations.append(obs["db"][1])
            else:
                notations.add(obs["db"][1])
            out["coverage"].append(rng.digest([sig, step["backend"], obs["db"][1]])[:20])
    first = [o for s_, o in zip(run_a["steps"], res_a["observations"]) if not s_.get("unjudged")][0]
    n_opt = first["solves"][0].get("n_optima", 0) if first.get("solves") else 0
    out["n_optima"] = n_opt
    if first.get("solves") and first["solves"][0].get("truncated"):
        out["truncated"] = 1
    if knotted and n_opt > 1:
        # (replaying an optimum of a ribosome-size model costs most of a second: a handful is enough there)
        ties = tie_indexes(n_opt, plan["tie_cap"] if len(st["triples"]) <= 1500 else 6)
        base = {"triples": st["triples"], "op": "dot_bracket", "via": "argument", "backend": "sim-api"}
        run_b = {"property": NAME, "family": st["family"], "loglevel": run_a.get("loglevel"),
                 "steps": [dict(base, fault={"kind": "ok_zero_noise" if t % 4 == 3 else "ok", "tie": t}) for t in ties]}
        res_b = execute_run(run_b, tmpdir)
        digests.append(res_b["digest"])
        for v in res_b["violations"]:
            v["run"] = run_b
        out["violations"] += res_b["violations"]
        out["steps"] += res_b["steps"]
        for k, c in res_b["counters"].items():
            out["counters"][k] = out["counters"].get(k, 0) + c
        for step, obs in zip(run_b["steps"], res_b["observations"]):
            if obs.get("db"):
                notations.add(obs["db"][1])
                out["coverage"].append(rng.digest([sig, "sim-api", obs["db"][1]])[:20])
    if knotted:
        best, _ = solve_engine.optimum_cached(pairs)
        if best is None:
            out["unjudged"] = 1
        # stub fidelity: the real CBC's answer must be one of the enumerated optima
        # (only meaningful when one conversion is one solve: the enumerated optima are those of one model)
        if not out["violations"] and n_opt and n_opt <= plan["tie_cap"] and not out["truncated"] and one_solve_each:
            for rn in real_notations:
                if rn not in notations:
                    out["fidelity_mismatch"] += 1
                    out["fidelity_example"] = {"real": rn, "stub": sorted(notations)[:8]}
    # probe (never judged here - it is C16's subject): every optimum the code turned into a notation should
    # also be a member of all_dot_brackets (an optimal assignment is greedy-stable); only for small components,
    # because all_dot_brackets enumerates permutations
    out["probe_checked"] = out["probe_missing"] = 0
    if knotted and notations and not out["violations"]:
        stl = oracles.stems(pairs)
        adj = oracles.conflict_graph(stl)
        seen, biggest = set(), 0
        for a0 in range(len(stl)):
            if a0 in seen:
                continue
            todo, size = [a0], 0
            seen.add(a0)
            while todo:
                x = todo.pop()
                size += 1
                for y in adj[x]:
                    if y not in seen:
                        seen.add(y)
                        todo.append(y)
            biggest = max(biggest, size)
        if biggest <= 6 and len(stl) <= 14:  # all_dot_brackets is a product over the components: keep it small
            try:
                listed = {d.structure for d in solve_engine.make_bpseq(st["triples"]).all_dot_brackets}
                out["probe_checked"] = len(notations)
                out["probe_missing"] = sum(1 for x in notations if x not in listed)
            except Exception:  # noqa: BLE001 - a probe never fails the run
                out["probe_missing"] = -1
    out["digest"] = rng.digest(digests)
    if i % 211 == 0 or (knotted and i % 53 == 0):
        out["sample"] = {"run_index": i, "family": st["family"], "fcfs": structures.structure_string(st["triples"]),
                         "n_optima_of_emitted_model": n_opt, "notations_seen": sorted(notations)[:6]}
    return out


def discard_result(i, reason):
    return {"index": i, "violations": [], "counters": {"discard.run-died": 1}, "steps": 1, "family": "died:",
            "knotted": True, "coverage": [], "unjudged": 0, "fidelity_mismatch": 0, "n_optima": 0, "truncated": 0,
            "discards": 1, "digest": "discard:died"}


def rebuild_run(seed, tier, i, tmpdir):
    raise RuntimeError("C02 violations carry their run")


def signature(v, run):
    return solve_engine.signature(v, run)


def size_of(run):
    return len(run["steps"])


def shrink_candidates(run, v):
    steps = run["steps"]
    focus = v["step"]
    for cand, _ in shrink.step_list_candidates(steps, focus):
        yield dict(run, steps=cand)
    step = steps[focus]
    if step.get("backend") != "sim-api":
        yield _with_step(run, focus, dict(step, backend="sim-api"))
    if step.get("via") == "property":
        yield _with_step(run, focus, dict(step, via="argument"))
    if step.get("route", "entries") != "entries":
        yield _with_step(run, focus, dict(step, route="entries"))
    if step.get("fault", {}).get("tie"):
        yield _with_step(run, focus, dict(step, fault=dict(step["fault"], tie=0)))
    if run.get("loglevel", "off") != "off":
        yield dict(run, loglevel="off")
    for t in shrink.structure_candidates(step["triples"]):
        if t:
            yield _with_step(run, focus, dict(step, triples=t))


def _with_step(run, k, step):
    steps = list(run["steps"])
    steps[k] = step
    return dict(run, steps=copy.deepcopy(steps))


def coverage_doc(results, tier):
    cov = set()
    counters = {}
    steps = knotted = unjudged = fidelity = discards = truncated = 0
    multi = 0
    families = {}
    samples = []
    fidelity_examples = []
    max_opt = 0
    probe_checked = probe_missing = 0
    fid_values = 0
    for r in results:
        fid_values += r.get("fidelity_values_compared", 0)
        probe_checked += max(0, r.get("probe_checked", 0))
        probe_missing += max(0, r.get("probe_missing", 0))
        cov.update(r["coverage"])
        steps += r["steps"]
        knotted += 1 if r["knotted"] else 0
        unjudged += r["unjudged"]
        fidelity += r["fidelity_mismatch"]
        discards += r["discards"]
        truncated += r["truncated"]
        multi += 1 if r["n_optima"] > 1 else 0
        max_opt = max(max_opt, r["n_optima"])
        fam = r["family"].split(":")[0]
        families[fam] = families.get(fam, 0) + 1
        for k, n in r["counters"].items():
            counters[k] = counters.get(k, 0) + n
        if "sample" in r and len(samples) < 6:
            samples.append(r["sample"])
        if "fidelity_example" in r and len(fidelity_examples) < 3:
            fidelity_examples.append(r["fidelity_example"])
    plan = PLAN[tier]
    return {
        "evaluations": steps,
        "distinct_nontrivial": len(cov),
        "rule": "one evaluation = one conversion of a structure under one solver answer through one back-end. "
                "Distinct = distinct (conflict graph with stem lengths in 5' order, back-end, returned notation) "
                "triples; non-trivial = the conflict graph is non-empty. For each knotted structure every optimal "
                "solution of the emitted model (up to %d, beyond that an evenly spread sample) is played back at "
                "API level, one seeded optimum each through the real CBC and HiGHS wrappers with a simulated "
                "process, and a sample through the real CBC binary." % plan["tie_cap"],
        "samples": samples,
        "exhaustive": False,
        "exhaustive_part": "every perfect-or-partial matching on 1..%d positions and every arm order (nesting/crossing "
                           "topology) of 1..%d stems x length regimes %s x uniform gaps %s: %d structures in all"
                           % (plan["max_n"], plan["topology"][0], plan["topology"][1], plan["topology"][2],
                              len(matchings(plan["max_n"]))),
        "structures": len(results),
        "knotted_structures": knotted,
        "structures_with_several_optima": multi,
        "max_optima_of_one_model": max_opt,
        "families": families,
        "reference_optimiser_cap_hits": unjudged,
        "optima_enumeration_truncated": truncated,
        "discarded_steps": discards,
        "stub_fidelity_mismatches_vs_real_cbc": fidelity,
        "stub_fidelity_objective_values_compared_with_real_cbc": fid_values,
        "probes": {"optimal_notations_checked_against_all_dot_brackets": probe_checked,
                   "optimal_notations_missing_from_all_dot_brackets": probe_missing,
                   "note": "cross-invariant with C16 (an optimal assignment is greedy-stable, hence listed); a probe, "
                           "never part of the exit code"},
        "stub_fidelity_examples": fidelity_examples,
        "fault_kinds_fired": dict(sorted(counters.items())),
        "simulated_time": "none: no anchored code path reads a clock",
        "real_vs_stub": {
            "real": ["rnapolis (working tree)", "pulp model building, MPS writer, CBC/HiGHS wrappers and readers",
                     "bundled CBC binary on a sample"],
            "stub": ["solver process (exact 0-1 solver over the emitted model, all optima)", "PATH lookup", "uuid4"],
        },
    }


REQUIRED_FIRED = ["api.ok", "cbc.ok", "highs.ok", "real-cbc.ok"]


def harness_problems(coverage):
    out = []
    if coverage["stub_fidelity_mismatches_vs_real_cbc"]:
        out.append("stub solver disagrees with the real CBC binary on %d structures: %s" % (
            coverage["stub_fidelity_mismatches_vs_real_cbc"], coverage["stub_fidelity_examples"][:1]))
    if coverage["reference_optimiser_cap_hits"] > 0.02 * max(1, coverage["knotted_structures"]):
        out.append("reference optimiser hit its node cap on %d structures" % coverage["reference_optimiser_cap_hits"])
    return out
