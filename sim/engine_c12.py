"""C12 - secondary-structure objects are pure: queries and derivations never change them.

A run is a seeded *history* of public calls on a pool of live BpSeq objects (the original plus every
object a derivation returned, which may alias the receiver's Entry objects).  Reference model: each
pool member's birth triples; the expected answer of any call is the same call on a brand-new BpSeq
built from them.  After every step every pool member is frame-checked.
"""
import copy

from . import events, oracles, rng, shrink, solve_engine, structures, zero_one
from .solverseam import HarnessError, SimEnv, SimSolver

NAME = "C12"
LEVEL = "exploration"

PLAN = {
    "quick": {"runs": 16000, "chunk": 200, "budget": None, "max_ops": 6},
    "thorough": {"runs": None, "chunk": 200, "budget": 600, "max_ops": 8},
}

ASSUMPTIONS = [
    "the expected answer of a call is the same call on a fresh BpSeq built from the receiver's birth triples, under "
    "the same deterministic solver behaviour (stub with a fixed tie-break, no solver, or the real CBC binary)",
    "lists of dot-brackets are compared as sorted lists (their order is C14's subject)",
    "graphviz is excluded (shells out to dot and writes files); call sequences, not threads",
    "histories and structures are sampled (seeded)",
]

OPS = ["str", "pairs", "sequence", "dot_bracket", "fcfs", "all_dot_brackets", "elements", "convert_sim",
       "convert_none", "without_pseudoknots", "without_isolated", "eq_fresh", "paired",
       "db_without_pseudoknots", "from_dotbracket", "fcfs_without_pseudoknots", "from_fcfs", "from_listed",
       "from_string", "convert_other_tie"]
REBUILDS = ("from_dotbracket", "from_fcfs", "from_listed", "from_string")
DERIVATIONS = ("without_pseudoknots", "without_isolated")
PUBLIC_SLOTS = ["sequence", "elements", "dot_bracket", "fcfs", "all_dot_brackets"]
ALL_SLOTS = ["sequence", "_BpSeq__stems_entries", "elements", "_BpSeq__regions", "dot_bracket", "fcfs",
             "all_dot_brackets"]


def preload(tier):
    solve_engine.common()


def total_runs(tier):
    return PLAN[tier]["runs"]


def gen_run(seed, tier, i):
    plan = PLAN[tier]
    s_struct = rng.stream(NAME, tier, seed, i, "structure")
    s_cfg = rng.stream(NAME, tier, seed, i, "config")
    s_ops = rng.stream(NAME, tier, seed, i, "ops")
    mode = s_struct.random()
    ladder9 = i % 16000 == 1234
    if ladder9:
        # nine mutually crossing stems: the largest knotted group for which all_dot_brackets (n! per group) still
        # finishes in the run's time limit on the unchanged tree (about 17 s) - asked first, then the others
        st = structures.gen_big_ladder(s_struct, 9, 9)
    elif mode < 0.12:
        st = structures.gen_multi_group(s_struct, 2, 3)
    elif mode < 0.18:
        st = structures.gen_many(s_struct, 10, 13)
    elif mode < 0.1806:
        st = structures.gen_large(s_struct, 300, 400)
    elif mode < 0.19:
        st = structures.gen_large(s_struct, 30, 70)
    else:
        st = structures.gen_structure(s_struct, max_stems=6, max_len=3, knotted_bias=0.5, template_p=0.4)
    solver = s_cfg.choices(["sim", "none", "real-cbc"], [16, 3, 1])[0]
    # swarm: a random subset of ops is enabled per run, derivations favoured
    enabled = [o for o in OPS if s_cfg.random() < 0.6]
    if st["family"].startswith("large"):
        # the all-dot-brackets list is a product over the knotted groups: astronomically long here
        enabled = [o for o in enabled if o not in ("all_dot_brackets", "from_listed")]
    for d in DERIVATIONS:
        if s_cfg.random() < 0.6 and d not in enabled:
            enabled.append(d)
    if not enabled:
        enabled = ["without_isolated", "str"]
    nops = s_ops.randint(1, plan["max_ops"])
    ops = [{"op": s_ops.choice(enabled), "target": s_ops.randrange(64)} for _ in range(nops)]
    if ladder9:
        ops = [{"op": "all_dot_brackets", "target": 0}] + [{"op": o, "target": 0} for o in
               s_ops.sample(["dot_bracket", "without_pseudoknots", "elements", "fcfs", "convert_none"], 3)]
        solver = "real-cbc"  # 81 binaries in one clique: beyond the exact stub, a tenth of a second for CBC
    run = {"property": NAME, "family": st["family"], "triples": st["triples"], "solver": solver,
           "tie": s_cfg.randrange(1 << 10), "ops": ops, "loglevel": s_cfg.choice(["off", "off", "INFO", "DEBUG"]),
           "route": s_cfg.choice(solve_engine.ROUTES)}
    s_fault = rng.stream(NAME, tier, seed, i, "faults")
    if ladder9:
        run["expensive_listing"] = True  # the fresh-copy comparison of the listing itself would double 25 s
    if solver == "sim" and s_fault.random() < 0.15:
        # the fault-injecting configuration (kept apart from the fault-free one, whose oracle is strict): solves
        # that happen inside a call may fail.  What is judged then is purity proper - entries, text and pairs of
        # every object unchanged also after a failed or half-finished solve, every answer repeated identically
        # when asked again, every notation a lossless one - while *which* lossless notation a call gets (the
        # optimal one or, after a failure, first-come-first-served) is left to C13.
        run["faulty"] = True
        for o in ops:
            if s_fault.random() < 0.5:
                kind = s_fault.choice(FAULT_KINDS)
                o["fault"] = {"kind": kind, "assign": s_fault.choice(API_ASSIGN), "partial": s_fault.randrange(1 << 16),
                              "exc": s_fault.choice(["message", "noargs", "subclass"]), "tie": run["tie"]}
    if s_cfg.random() < 0.35:
        # a second, independent original with the same sequence but other pairs: anything memoised under a
        # key that is too coarse (sequence, length, ...) makes one answer for the other
        sib = sibling(s_struct, st["triples"])
        if sib is not None:
            run["sibling"] = sib
    return run


FAULT_KINDS = ["raise_before", "raise_after_partial", "raise_after_optimal", "status_infeasible", "status_notsolved",
               "status_undefined", "status_unbounded"]
API_ASSIGN = ["none", "partial", "full"]
# answers that depend on what the solver did during (or before) the call
SOLVER_DEPENDENT = {"dot_bracket", "elements", "convert_sim", "convert_other_tie", "without_pseudoknots",
                    "db_without_pseudoknots"}
# solver-independent queries: asked again they must answer the same whatever failed in between (a solver-dependent
# one may legitimately differ when the solver behaved differently the second time - an implementation that does
# not memoise a fallback answer is not impure)
ASKED_AGAIN = {"str", "pairs", "sequence", "fcfs", "all_dot_brackets", "paired"}


def sibling(s, triples):
    n, pairs = oracles.pairs_of_triples(triples)
    st = oracles.stems(pairs)
    seq = oracles.sequence_of_triples(triples)
    mode = s.choice(["drop_stem", "shift", "fresh", "other_letters", "other_letters"])
    if mode == "other_letters":
        # same pairs, another sequence of the same length
        letters = "".join(s.choice(structures.LETTERS) for _ in range(n))
        if letters == seq:
            letters = ("C" if seq[0] != "C" else "G") + seq[1:]
        return oracles.triples_from(letters, pairs)
    if mode == "drop_stem" and st:
        i, j, L = s.choice(st)
        keep = set(pairs) - {(i + t, j - t) for t in range(L)}
        return oracles.triples_from(seq, keep)
    if mode == "shift" and n >= 4:
        # same letters, a structure of another seeded family cut or padded to the same length
        other = structures.gen_structure(s, max_stems=5, max_len=3, knotted_bias=0.5)["triples"]
        m, op = oracles.pairs_of_triples(other)
        keep = {(i, j) for i, j in op if j <= n}
        return oracles.triples_from(seq, keep)
    if n >= 2:
        return oracles.triples_from(seq, {(1, n)})
    return None


def entries_triples(bp):
    return [[e.index_, e.sequence, e.pair] for e in bp.entries]


def normalise(value):
    """Public answer -> JSON-able canonical form."""
    c = solve_engine.common()
    if isinstance(value, c.BpSeq):
        return ["BpSeq", entries_triples(value)]
    if isinstance(value, c.DotBracket):
        return ["DotBracket", value.sequence, value.structure]
    if isinstance(value, (c.Stem, c.SingleStrand, c.Hairpin, c.Loop)):
        return str(value)
    if isinstance(value, c.Entry):
        return [value.index_, value.sequence, value.pair]
    if isinstance(value, dict):
        return sorted([normalise(k), normalise(v)] for k, v in value.items())
    if isinstance(value, (list, tuple)):
        return [normalise(v) for v in value]
    return value


def apply_op(env, op, obj, birth):
    """Returns (normalised answer, raw result)."""
    c = solve_engine.common()
    try:
        if op == "str":
            raw = str(obj)
        elif op == "pairs":
            raw = dict(obj.pairs)
        elif op == "sequence":
            raw = obj.sequence
        elif op == "dot_bracket":
            raw = obj.dot_bracket
        elif op == "fcfs":
            raw = obj.fcfs
        elif op == "all_dot_brackets":
            raw = obj.all_dot_brackets
            return sorted(normalise(raw)), raw
        elif op == "elements":
            raw = obj.elements
        elif op == "convert_sim":
            raw = obj.convert_to_dot_bracket(env.decoy_solver())
        elif op == "convert_other_tie":
            # an explicit conversion with a correct solver that breaks ties its own way (another of the optima)
            raw = obj.convert_to_dot_bracket(env.other_solver())
        elif op == "convert_none":
            raw = obj.convert_to_dot_bracket(None)
        elif op == "without_pseudoknots":
            raw = obj.without_pseudoknots()
        elif op == "without_isolated":
            raw = obj.without_isolated()
        elif op == "eq_fresh":
            raw = bool(obj == solve_engine.make_bpseq(birth))
        elif op == "paired":
            raw = [normalise(e) for e in obj.paired(only5to3=True)]
        elif op == "db_without_pseudoknots":
            # public method of the DotBracket object the structure hands out (and keeps memoised)
            raw = obj.dot_bracket.without_pseudoknots()
        elif op == "fcfs_without_pseudoknots":
            raw = obj.fcfs.without_pseudoknots()
        elif op == "from_dotbracket":
            raw = c.BpSeq.from_dotbracket(obj.dot_bracket)
        elif op == "from_fcfs":
            raw = c.BpSeq.from_dotbracket(obj.fcfs)
        elif op == "from_listed":
            listed = obj.all_dot_brackets
            raw = c.BpSeq.from_dotbracket(listed[(len(birth) * 7 + 3) % len(listed)])
        elif op == "from_string":
            raw = c.BpSeq.from_string(str(obj))
        else:
            raise HarnessError("unknown op " + op)
    except (HarnessError, zero_one.NodeCap, zero_one.Unsupported, KeyboardInterrupt):
        raise
    except Exception as e:  # noqa: BLE001
        return ["raised", type(e).__name__], None
    return normalise(raw), raw


def spec_problem(op, answer, birth, solver):
    """(clause, expected, actual) when a query answer contradicts the structure it was asked of."""
    n, pairs = oracles.pairs_of_triples(birth)
    seq = oracles.sequence_of_triples(birth)
    if isinstance(answer, list) and answer[:1] == ["raised"]:
        return None  # exceptions are compared with the fresh copy only
    if op == "str":
        want = "\n".join("%d %s %d" % (i, ch, j) for i, ch, j in birth)
        if answer != want:
            return ("text-is-the-bpseq-of-the-structure", want, answer)
    elif op == "sequence":
        if answer != seq:
            return ("sequence-is-the-sequence-of-the-structure", seq, answer)
    elif op == "pairs":
        want = sorted([[i, j] for i, j in pairs] + [[j, i] for i, j in pairs])
        if sorted(answer) != want:
            return ("pairs-are-the-pairs-of-the-structure", want, sorted(answer))
    elif op in ("dot_bracket", "fcfs", "convert_sim", "convert_none", "convert_other_tie"):
        bad = oracles.lossless_problems(seq, n, pairs, answer[1], answer[2])
        if bad:
            return ("notation-encodes-the-structure", {"sequence": seq, "pairs": sorted(pairs)}, answer)
        if op in ("fcfs", "convert_none") or (op == "dot_bracket" and solver == "none"):
            want = oracles.fcfs_ref(n, pairs)
            if answer[2] != want:
                return ("fcfs-is-first-come-first-served", want, answer[2])
    elif op == "all_dot_brackets":
        seen = set()
        for item in answer:
            bad = oracles.lossless_problems(seq, n, pairs, item[1], item[2])
            if bad:
                return ("every-listed-notation-encodes-the-structure", {"sequence": seq, "pairs": sorted(pairs)}, item)
            if item[2] in seen:
                return ("listed-notations-are-distinct", "no duplicates", item[2])
            seen.add(item[2])
        if not answer:
            return ("list-of-notations-is-not-empty", ">= 1 notation", answer)
    elif op == "elements":
        stems_txt = answer[0]
        want = oracles.stems(pairs)
        got = []
        for t in stems_txt:
            f = t.split()
            got.append((int(f[1]), int(f[6]), int(f[2]) - int(f[1]) + 1))
        if sorted(got) != sorted(want):
            return ("element-stems-are-the-stems-of-the-structure", sorted(want), sorted(got))
    elif op in REBUILDS:
        if answer != ["BpSeq", [list(t) for t in birth]]:
            return ("from_dotbracket-of-own-notation-is-the-structure", birth, answer)
    elif op in ("db_without_pseudoknots", "fcfs_without_pseudoknots"):
        got = oracles.decode(answer[2]) if len(answer[2]) == n else None
        if answer[1] != seq or got is None or not got <= set(pairs) or set(answer[2]) - set(".()"):
            return ("pseudoknot-free-notation-is-a-round-bracket-subset-of-the-structure", sorted(pairs), answer)
    elif op == "paired":
        want = [[i, seq[i - 1], j] for i, j in sorted(pairs)]
        if answer != want:
            return ("paired-entries-are-the-paired-entries", want, answer)
    elif op == "eq_fresh":
        if answer is not True:
            return ("equal-to-a-fresh-copy", True, answer)
    return None


def cache_mask(obj):
    m = 0
    for bit, name in enumerate(ALL_SLOTS):
        if name in obj.__dict__:
            m |= 1 << bit
    return m


def _v(k, clause, op, expected, actual, who="receiver"):
    return {"step": k, "clause": clause, "op": op, "who": who, "expected": expected, "actual": actual}


def execute_run(run, tmpdir):
    log = events.reset()
    run_id = rng.digest([run["triples"], run["solver"], run["tie"], run["ops"]])[:24]
    violations = []
    coverage = []
    n0, pairs0 = oracles.pairs_of_triples(run["triples"])
    has_iso = any(L == 1 for _, _, L in oracles.stems(pairs0))
    has_knot = oracles.is_knotted(pairs0)
    with SimEnv(tmpdir, run_id, run.get("loglevel")) as env:
        backend = {"sim": "sim-api", "none": "none", "real-cbc": "real-cbc"}[run["solver"]]
        solver = env.configure(backend, False, True, [{"kind": "ok", "tie": run["tie"]}])
        env.set_default(solver)
        pool = [solve_engine.make_bpseq(run["triples"], run.get("route", "entries"), env.tmpdir)]
        births = [copy.deepcopy(run["triples"])]
        origin = ["original"]
        if run.get("sibling"):
            pool.append(solve_engine.make_bpseq(run["sibling"], run.get("route", "entries"), env.tmpdir))
            births.append(copy.deepcopy(run["sibling"]))
            origin.append("sibling")
        touched = set()
        ref_cache = {}
        faulty = bool(run.get("faulty"))
        healthy = {"kind": "ok", "tie": run["tie"]}
        first_answers = {}

        def set_fault(f):
            env.faults = [dict(f)]
            env.fault_cursor = 0

        def reference(birth_idx, op):
            """The answer of a brand-new object built from the birth triples, under a healthy solver."""
            key = (birth_idx, op)
            if key not in ref_cache:
                saved = (env.faults, env.fault_cursor)
                set_fault(healthy)
                fresh = solve_engine.make_bpseq(births[birth_idx])
                ref_cache[key] = apply_op(env, op, fresh, births[birth_idx])[0]
                env.faults, env.fault_cursor = saved
            return ref_cache[key]

        def relaxed_problem(op, answer, obj, birth):
            """Fault-injecting configuration only: what a solver-dependent answer must still satisfy."""
            n, pairs = oracles.pairs_of_triples(birth)
            if op in ("dot_bracket", "convert_sim", "convert_other_tie"):
                allowed = [reference(t, "dot_bracket"), reference(t, "convert_other_tie"),
                           ["DotBracket", oracles.sequence_of_triples(birth), oracles.fcfs_ref(n, pairs)]]
                if answer not in allowed:
                    return ("notation-is-the-optimal-or-the-fcfs-one", allowed, answer)
            if op == "elements" and "dot_bracket" in obj.__dict__:
                own = obj.__dict__["dot_bracket"].structure
                seq = oracles.sequence_of_triples(birth)
                for group in answer:
                    for text in group:
                        f = text.split()
                        # every strand is "<first> <last> <sequence> <structure>" somewhere in the element text
                        for q in range(len(f) - 3):
                            if f[q].isdigit() and f[q + 1].isdigit() and not f[q + 2].isdigit():
                                lo, hi = int(f[q]), int(f[q + 1])
                                if hi - lo + 1 == len(f[q + 2]) == len(f[q + 3]) and (
                                        f[q + 2] != seq[lo - 1:hi] or f[q + 3] != own[lo - 1:hi]):
                                    return ("elements-agree-with-the-object's-own-notation", [lo, hi, seq[lo - 1:hi], own[lo - 1:hi]], text)
            return None

        for k, step in enumerate(run["ops"]):
            op = step["op"]
            t = step["target"] % len(pool)
            obj = pool[t]
            mask = cache_mask(obj)
            ids = {id(e) for e in obj.entries}
            aliased_touched = any(ids & {id(e) for e in pool[u].entries} for u in touched)
            events.log("op.invoke", [op, t, mask])
            if faulty:
                set_fault(step.get("fault") or healthy)
            answer, raw = apply_op(env, op, obj, births[t])
            if faulty:
                set_fault(healthy)
            events.log("op.return", rng.digest(answer)[:16])
            raised = isinstance(answer, list) and answer[:1] == ["raised"]
            if run.get("expensive_listing") and op == "all_dot_brackets":
                ref_cache[(t, op)] = answer  # judged by its specification clauses only
            if not faulty or op not in SOLVER_DEPENDENT:
                expected = reference(t, op)
                if answer != expected and not (faulty and raised):
                    violations.append(_v(k, "answer-equals-fresh-copy", op, expected, answer))
            elif not raised:
                rp = relaxed_problem(op, answer, obj, births[t])
                if rp:
                    violations.append(_v(k, rp[0], op, rp[1], rp[2]))
            if faulty and not raised and op in ASKED_AGAIN:
                # purity under faults: whatever an object answered once, it answers again
                key = (id(obj), op)
                if key in first_answers and first_answers[key] != answer:
                    violations.append(_v(k, "same-answer-when-asked-again", op, first_answers[key], answer))
                first_answers.setdefault(key, answer)
            # independent clauses (they do not go through a second copy of the code under test, so process-
            # or class-level state shared by the receiver and the fresh copy cannot hide behind them)
            spec = spec_problem(op, answer, births[t], run["solver"])
            if spec:
                violations.append(_v(k, spec[0], op, spec[1], spec[2]))
            if op in DERIVATIONS and raw is not None:
                child = raw
                ctr = entries_triples(child)
                cn, cpairs = oracles.pairs_of_triples(ctr)
                bn, bpairs = oracles.pairs_of_triples(births[t])
                bseq = oracles.sequence_of_triples(births[t])
                if oracles.sequence_of_triples(ctr) != bseq or cn != bn:
                    violations.append(_v(k, "derivation-keeps-sequence", op, bseq, oracles.sequence_of_triples(ctr)))
                if op == "without_isolated":
                    want = oracles.pairs_in_long_stems(bpairs)
                    if cpairs != want:
                        violations.append(_v(k, "without_isolated-keeps-exactly-long-stems", op, sorted(want), sorted(cpairs)))
                elif faulty:
                    own = obj.__dict__.get("dot_bracket")
                    if own is not None and oracles.decode(own.structure) is not None:
                        want = oracles.pairs_on_round(own.structure)
                        if cpairs != want:
                            violations.append(_v(k, "without_pseudoknots-keeps-exactly-round-pairs", op, sorted(want), sorted(cpairs)))
                else:
                    ref_db = reference(t, "dot_bracket")
                    if ref_db[0] == "DotBracket":
                        want = oracles.pairs_on_round(ref_db[2]) if oracles.decode(ref_db[2]) is not None else None
                        if want is not None and cpairs != want:
                            violations.append(_v(k, "without_pseudoknots-keeps-exactly-round-pairs", op, sorted(want), sorted(cpairs)))
                if not any(child is p for p in pool):
                    pool.append(child)
                    births.append(copy.deepcopy(ctr))
                    origin.append("child")
            if op in REBUILDS and raw is not None and len(pool) < 6:
                # an object rebuilt from the receiver's own (memoised) notation is a derived object too: it
                # joins the pool, and whatever it shares with that notation is exercised by later calls
                pool.append(raw)
                births.append(copy.deepcopy(entries_triples(raw)))
                origin.append("child")
            if k >= 1 and (t in touched or aliased_touched):
                coverage.append(rng.digest([mask, op, origin[t], has_iso, has_knot])[:16])
            touched.add(t)
            # frame check: every pool member still is what it was born as
            for u, member in enumerate(pool):
                who = "receiver" if u == t else ("other:" + origin[u])
                birth = births[u]
                text = "\n".join("%d %s %d" % (i, ch, j) for i, ch, j in birth)
                if entries_triples(member) != birth:
                    violations.append(_v(k, "entries-unchanged", op, birth, entries_triples(member), who))
                    continue
                try:
                    got_text = str(member)
                except Exception as e:  # noqa: BLE001
                    got_text = "raised " + type(e).__name__
                if got_text != text:
                    violations.append(_v(k, "text-unchanged", op, text, got_text, who))
                want_pairs = {}
                for i, _, j in birth:
                    if j:
                        want_pairs[i] = j
                        want_pairs[j] = i
                if dict(member.pairs) != want_pairs:
                    violations.append(_v(k, "pairs-unchanged", op, sorted(want_pairs.items()), sorted(member.pairs.items()), who))
                for slot in PUBLIC_SLOTS:
                    if slot in member.__dict__:
                        cached = normalise(member.__dict__[slot])
                        if slot == "all_dot_brackets":
                            cached = sorted(cached)
                        ref = reference(u, slot)
                        if faulty and slot in ("dot_bracket", "elements"):
                            # may legitimately be the first-come-first-served answer after a failed solve; what it
                            # must be is judged when it is asked for (relaxed_problem)
                            continue
                        if cached != ref:
                            violations.append(_v(k, "cached-answer-equals-fresh-copy", op, ref, cached, who + ":" + slot))
            if violations:
                break
    for v in violations:
        v["signature"] = signature(v, run)
    return {"violations": violations, "digest": log.digest(), "counters": dict(log.counters),
            "coverage": coverage, "steps": len(run["ops"]), "pool": len(pool)}


def run_index(seed, tier, i, tmpdir):
    run = gen_run(seed, tier, i)
    try:
        res = execute_run(run, tmpdir)
    except (zero_one.NodeCap, zero_one.Unsupported) as e:
        res = {"violations": [], "digest": "discard:" + type(e).__name__, "counters": {"discard." + type(e).__name__: 1},
               "coverage": [], "steps": 0, "pool": 0}
    res["index"] = i
    res["solver"] = run["solver"] + ("+faults" if run.get("faulty") else "")
    if res["violations"] or i % 997 == 0:
        res["run"] = run
    return res


def discard_result(i, reason):
    return {"index": i, "violations": [], "digest": "discard:died", "counters": {"discard.run-died": 1}, "coverage": [],
            "steps": 0, "pool": 0, "solver": "died"}


def rebuild_run(seed, tier, i, tmpdir):
    return gen_run(seed, tier, i)


def signature(v, run):
    return [v["clause"], v["op"]]


def size_of(run):
    return len(run["ops"])


def shrink_candidates(run, v):
    ops = run["ops"]
    focus = min(v["step"], len(ops) - 1)
    if len(ops) > focus + 1:
        yield dict(run, ops=ops[: focus + 1])
    if len(ops) > 1:
        yield dict(run, ops=[ops[focus]])
        for k in range(len(ops)):
            yield dict(run, ops=ops[:k] + ops[k + 1 :])
    for k, o in enumerate(ops):
        if o["target"] != 0:
            yield dict(run, ops=ops[:k] + [dict(o, target=0)] + ops[k + 1 :])
    if run["solver"] != "none":
        yield dict(run, solver="none")
    if run["solver"] == "real-cbc":
        yield dict(run, solver="sim")
    if run["tie"]:
        yield dict(run, tie=0)
    if run.get("sibling"):
        yield {k: v for k, v in run.items() if k != "sibling"}
    if run.get("loglevel", "off") != "off":
        yield dict(run, loglevel="off")
    if run.get("route", "entries") != "entries":
        yield dict(run, route="entries")
    if run.get("faulty"):
        for k, o in enumerate(ops):
            if o.get("fault"):
                yield dict(run, ops=ops[:k] + [{kk: vv for kk, vv in o.items() if kk != "fault"}] + ops[k + 1:])
                if o["fault"]["kind"] != "raise_before":
                    yield dict(run, ops=ops[:k] + [dict(o, fault=dict(o["fault"], kind="raise_before"))] + ops[k + 1:])
    for t in shrink.structure_candidates(run["triples"]):
        if t:
            yield dict(run, triples=t)


def coverage_doc(results, tier):
    cov = set()
    steps = 0
    counters = {}
    solvers = {}
    pools = 0
    samples = []
    for r in results:
        cov.update(r["coverage"])
        steps += r["steps"]
        pools += r["pool"]
        solvers[r["solver"]] = solvers.get(r["solver"], 0) + 1
        for k, n in r["counters"].items():
            counters[k] = counters.get(k, 0) + n
        if "run" in r and len(samples) < 4:
            run = r["run"]
            samples.append({"run_index": r["index"], "structure_fcfs": structures.structure_string(run["triples"]),
                            "solver": run["solver"], "history": [[o["op"], o["target"]] for o in run["ops"]]})
    return {
        "evaluations": steps,
        "distinct_nontrivial": len(cov),
        "rule": "one evaluation = one call of a history (<= %d calls per history) on a pool member, followed by a "
                "frame check of every pool member. Distinct = distinct (set of memoised slots present on the "
                "receiver before the call, operation, receiver is the original or a derived object, structure has "
                "an isolated pair, structure has a pseudoknot) tuples; non-trivial = at least one earlier call of "
                "the history ran on the same object or on an object sharing Entry objects with it."
                % PLAN[tier]["max_ops"],
        "samples": samples,
        "exhaustive": False,
        "histories": len(results),
        "mean_pool_size": round(pools / max(1, len(results)), 2),
        "solver_behaviour_per_history": solvers,
        "fault_kinds_fired": dict(sorted(counters.items())),
        "faults": "two configurations, kept apart: fault-free histories (strict oracle: every answer equals a fresh copy's) and, "
                  "in about one history in eight with the stub solver, solver faults inside calls (raise before / after a "
                  "partial result / after the status was recorded, each non-optimal status with stale values). There the "
                  "oracle is relaxed narrowly: a solver-dependent answer may be the optimal or the first-come-first-served "
                  "notation (which of the two is C13's business), everything else stays strict - entries, text and pairs of "
                  "every object unchanged also after a failed call, the same answer when asked again, lossless notations, "
                  "the removals' specification against the object's own notation",
        "simulated_time": "none: no anchored code path reads a clock",
        "real_vs_stub": {"real": ["rnapolis BpSeq/DotBracket (working tree)", "pulp model building", "bundled CBC in ~5% of histories"],
                         "stub": ["solver (deterministic exact stub with a per-history tie-break) in most histories"]},
    }
