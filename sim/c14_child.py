"""Child interpreter of the C14 engine: computes every output kind for every manifest item, twice
(second time on freshly built objects), and prints one line per (item, kind, repetition):

    D <item id> <kind> <rep> <sha256> <size> <nontrivial 0/1>

It is started by the driver under a chosen PYTHONHASHSEED; it must not re-exec or fix the hash seed.
"""
import contextlib
import hashlib
import io
import json
import logging
import os
import sys
import tempfile
import time


def sha(data):
    if isinstance(data, str):
        data = data.encode()
    return hashlib.sha256(data).hexdigest(), len(data)


def emit(out, item, kind, rep, data, nontrivial):
    h, size = sha(data)
    out.write("D %s %s %d %s %d %d\n" % (item, kind, rep, h, size, 1 if nontrivial else 0))
    if os.environ.get("VERIF_C14_DUMP"):
        d = os.environ["VERIF_C14_DUMP"]
        with open(os.path.join(d, "%s.%s.%d.%s" % (item.replace("/", "_").replace(":", "_"), kind, rep, os.environ.get("PYTHONHASHSEED", "x"))), "wb") as f:
            f.write(data if isinstance(data, bytes) else data.encode())


def file_item(out, item, rep, tmpdir):
    from rnapolis import annotator, parser
    from rnapolis.util import handle_input_file

    path = item["path"]
    with handle_input_file(path) as fh:
        structure3d = parser.read_3d_structure(fh, None)
    structure2d, dbs = annotator.extract_secondary_structure(structure3d, None, item["find_gaps"], True)
    iid = item["id"]
    has_pairs = len(structure2d.baseInteractions.basePairs) > 0
    bi = structure2d.baseInteractions
    emit(out, iid, "interactions", rep, "\n".join(
        repr(x) for lst in (bi.basePairs, bi.stackings, bi.baseRiboseInteractions, bi.basePhosphateInteractions,
                            bi.otherInteractions) for x in lst), has_pairs)
    jpath = os.path.join(tmpdir, "o.json")
    annotator.write_json(jpath, structure2d)
    with open(jpath, "rb") as f:
        emit(out, iid, "json", rep, f.read(), has_pairs)
    cpath = os.path.join(tmpdir, "o.csv")
    annotator.write_csv(cpath, structure2d)
    with open(cpath, "rb") as f:
        emit(out, iid, "csv", rep, f.read(), has_pairs)
    emit(out, iid, "bpseq", rep, structure2d.bpseq, has_pairs)
    emit(out, iid, "dot_bracket", rep, structure2d.dotBracket, has_pairs)
    emit(out, iid, "extended_dot_bracket", rep, structure2d.extendedDotBracket, has_pairs)
    emit(out, iid, "all_dot_brackets", rep, "\n".join(dbs), len(dbs) >= 2)
    emit(out, iid, "elements", rep, "\n".join(
        str(e) for lst in (structure2d.stems, structure2d.singleStrands, structure2d.hairpins, structure2d.loops)
        for e in lst), has_pairs)
    emit(out, iid, "inter_stem", rep, repr(structure2d.interStemParameters), len(structure2d.interStemParameters) > 0)
    if item.get("v2") and (rep == 0 or item.get("v2_repeat")):
        from rnapolis import parser_v2

        with handle_input_file(path) as fh:
            text = fh.read()
        try:
            if path.endswith(".pdb"):
                df = parser_v2.parse_pdb_atoms(text)
            else:
                df = parser_v2.parse_cif_atoms(text)
            emit(out, iid, "v2_write_cif", rep, parser_v2.write_cif(df), len(df) > 0)
            if os.path.getsize(path) < 250_000:
                # the same through the package's input helper and an open file object instead of text
                with handle_input_file(path) as fh2:
                    df2 = parser_v2.parse_pdb_atoms(fh2) if path.endswith(".pdb") else parser_v2.parse_cif_atoms(fh2)
                emit(out, iid, "v2_write_cif_from_handle", rep, parser_v2.write_cif(df2), len(df2) > 0)
            try:
                pdb_text = parser_v2.write_pdb(df)
            except Exception as e:  # noqa: BLE001 - refusal is a legitimate, deterministic outcome
                pdb_text = "raised %s" % type(e).__name__
            emit(out, iid, "v2_write_pdb", rep, pdb_text, len(df) > 0)
        except Exception as e:  # noqa: BLE001
            emit(out, iid, "v2_error", rep, "raised %s: %s" % (type(e).__name__, e), False)
    if item.get("lib") and (rep == 0 or item.get("lib_repeat")):
        lib_outputs(out, iid, rep, path)
    if item.get("cli") and (rep == 0 or item.get("cli_repeat")):
        for flag, kind in (("-a", "cli_all"), ("-e", "cli_extended"), ("", "cli_default")):
            if flag not in item.get("cli_variants", ["-a", "-e", ""]):
                continue
            argv = ["annotator", path]
            if item["find_gaps"]:
                argv.append("-f")
            if flag:
                argv.append(flag)
            outs = {k: os.path.join(tmpdir, "cli." + k) for k in ("csv", "json", "bpseq", "pml", "inter_stem_csv", "stems_csv")}
            for p in outs.values():
                if os.path.exists(p):
                    os.remove(p)
            argv += ["--csv", outs["csv"], "--json", outs["json"], "--bpseq", outs["bpseq"], "--pml", outs["pml"],
                     "--inter-stem-csv", outs["inter_stem_csv"], "--stems-csv", outs["stems_csv"]]
            buf = io.StringIO()
            old = sys.argv
            sys.argv = argv
            try:
                with contextlib.redirect_stdout(buf):
                    annotator.main()
            finally:
                sys.argv = old
            emit(out, iid, kind + "_stdout", rep, buf.getvalue(), has_pairs)
            if flag == "-a":
                for k, p in outs.items():
                    if os.path.exists(p):
                        with open(p, "rb") as f:
                            emit(out, iid, "cli_" + k, rep, f.read(), has_pairs)
                    else:
                        emit(out, iid, "cli_" + k, rep, "<not written>", False)
                if item.get("rerun") and rep == 0:
                    # once more with the output files of the first run still in place (a third repetition)
                    buf = io.StringIO()
                    sys.argv = argv
                    try:
                        with contextlib.redirect_stdout(buf):
                            annotator.main()
                    finally:
                        sys.argv = old
                    emit(out, iid, kind + "_stdout", 2, buf.getvalue(), has_pairs)
                    for k, p in outs.items():
                        if os.path.exists(p):
                            with open(p, "rb") as f:
                                emit(out, iid, "cli_" + k, 2, f.read(), has_pairs)
                        else:
                            emit(out, iid, "cli_" + k, 2, "<not written>", False)


def derive_pdb(text, variant, rnd):
    """A corpus PDB file with one feature no corpus file has, added at the text level (fixed columns): alternate
    locations with equal occupancies, insertion codes, a second model, duplicated atoms.  Pure function of
    (text, variant, rnd state)."""
    lines = text.splitlines()
    atoms = [k for k, l in enumerate(lines) if l.startswith(("ATOM  ", "HETATM"))]
    if not atoms:
        return text
    keys = []
    for k in atoms:
        key = lines[k][21:27]  # chain + resSeq + iCode
        if not keys or keys[-1] != key:
            keys.append(key)
    chosen = set(rnd.sample(keys, max(1, min(len(keys), rnd.randint(2, 5)))))
    if variant in ("protonated", "jitter"):
        chosen = set(rnd.sample(keys, max(1, len(keys) // 2)))

    def shifted(l, d):
        x, y, z = float(l[30:38]) + d, float(l[38:46]) - d, float(l[46:54]) + d / 2
        return l[:30] + "%8.3f%8.3f%8.3f" % (x, y, z) + l[54:]

    out = []
    if variant == "altloc":
        for k, l in enumerate(lines):
            if k in atoms and l[21:27] in chosen and l[16] == " ":
                l = l.ljust(66)
                out.append(l[:16] + "A" + l[17:54] + "  0.50" + l[60:])
                out.append(shifted(l[:16] + "B" + l[17:54] + "  0.50" + l[60:], 2.5))  # far enough to change pairings
            else:
                out.append(l)
    elif variant == "dupatoms":
        for k, l in enumerate(lines):
            out.append(l)
            if k in atoms and l[21:27] in chosen and rnd.random() < 0.4:
                out.append(shifted(l, rnd.choice([0.05, 1.5])))  # the same atom name once more, on top of or near the first
    elif variant == "icode":
        # a run of consecutive residues collapses onto one residue number with insertion codes A, B, C
        start = rnd.randrange(max(1, len(keys) - 3))
        run = keys[start:start + 3]
        base = run[0]
        for k, l in enumerate(lines):
            if k in atoms and l[21:27] in run:
                out.append(l[:21] + base[:5] + "ABC"[run.index(l[21:27])] + l[27:])
            else:
                out.append(l)
    elif variant in ("modres_full", "modres_part"):
        # one residue renamed to a non-standard name (its letter must then be inferred from its atoms); in the
        # 'part' twin the exocyclic atoms that tell G from A and C from U are not modelled.  The two twins share
        # the name but not the letter: anything remembered per residue NAME across inputs mixes them up.
        target = sorted(chosen)[0]
        for k, l in enumerate(lines):
            if k in atoms and l[21:27] == target:
                if variant == "modres_part" and l[12:16].strip() in ("O6", "N2", "N6", "O4", "N4", "O2"):
                    continue
                out.append("HETATM" + l[6:17] + "MRX" + l[20:])
            else:
                out.append(l)
    elif variant == "protonated":
        # explicit hydrogens on ring nitrogens (C+ with H3, A+ with H1), 1.0 A from the nitrogen
        for k, l in enumerate(lines):
            out.append(l)
            if k in atoms and l[21:27] in chosen:
                res, name = l[17:20].strip(), l[12:16].strip()
                if (res in ("C", "DC") and name == "N3") or (res in ("A", "DA") and name == "N1"):
                    h = "H3" if name == "N3" else "H1"
                    hl = shifted(l.ljust(78), 0.58)
                    out.append(hl[:12] + (" " + h).ljust(4) + hl[16:76] + " H" + hl[78:])
    elif variant == "jitter":
        # every chosen residue moved rigidly by a fraction of an angstrom: near-threshold contacts, ties
        for k, l in enumerate(lines):
            if k in atoms and l[21:27] in chosen:
                out.append(shifted(l, 0.15 + 0.1 * (sum(map(ord, l[21:27])) % 6)))
            else:
                out.append(l)
    elif variant == "twinchain":
        # static disorder modelled as a second chain on top of the first: the chosen residues once more under
        # another chain identifier, 0.2 A away, both copies with occupancy 0.50 (a tie for the clash filter)
        used = {l[21] for k, l in enumerate(lines) if k in atoms}
        twin = next(c for c in "ZYXWVUTSRQ" if c not in used)
        extra = []
        for k, l in enumerate(lines):
            if k in atoms and l[21:27] in chosen:
                l = l.ljust(66)
                out.append(l[:54] + "  0.50" + l[60:])
                extra.append(shifted(l[:21] + twin + l[22:54] + "  0.50" + l[60:], 0.2))
            else:
                out.append(l)
        last = max(atoms)
        pos = next(i for i, l in enumerate(out) if l[:66].rstrip() == lines[last].ljust(66)[:66].rstrip() or i == len(out) - 1)
        out = out[:pos + 1] + extra + out[pos + 1:]
    elif variant == "models":
        body = [l for l in lines if l.startswith(("ATOM  ", "HETATM", "TER"))]
        head = [l for l in lines if not l.startswith(("ATOM  ", "HETATM", "TER", "MODEL", "ENDMDL", "END", "MASTER", "CONECT"))]
        out = head + ["MODEL        1"] + body + ["ENDMDL", "MODEL        2"]
        out += [shifted(l, 3.0) if l.startswith(("ATOM  ", "HETATM")) and l[21:27] in chosen else l for l in body]
        out += ["ENDMDL", "END"]
    else:
        out = lines
    return "\n".join(out) + "\n"


def pairfuzz_item(out, item, rep, tmpdir):
    """Coordinate-level fuzzing of the 3D annotation: two neighbouring residues cut out of a corpus PDB file, the
    second moved rigidly by up to 1 A and 12 degrees, forty times per item.  About one such fragment in twenty
    has the two residues matched in two Leontis-Westhof classes at once - the near-threshold, tie-prone geometry
    that whole corpus files do not contain.  Pure function of (file, gen_seed)."""
    import io as _io
    import math
    import random

    from rnapolis import annotator, parser

    rnd = random.Random(item["gen_seed"])
    with open(item["source"]) as f:
        raw = [l for l in f.read().splitlines() if l.startswith(("ATOM  ", "HETATM"))]
    seen, residues = set(), {}
    for l in raw:  # first model, first alternate location only
        k = (l[21:27], l[12:16])
        if k in seen:
            continue
        seen.add(k)
        residues.setdefault(l[21:27], []).append(l)
    keys = [k for k in residues if len(residues[k]) >= 8]

    def xyz(l):
        return (float(l[30:38]), float(l[38:46]), float(l[46:54]))

    cent = {}
    for k in keys:
        pts = [xyz(l) for l in residues[k]]
        cent[k] = tuple(sum(p[d] for p in pts) / len(pts) for d in range(3))
    cands = [(a, b) for i, a in enumerate(keys) for b in keys[i + 1:]
             if sum((cent[a][d] - cent[b][d]) ** 2 for d in range(3)) < 9.5 ** 2]
    outl = []
    for trial in range(item.get("trials", 40)):
        if not cands:
            break
        a, b = rnd.choice(cands)
        ax = [rnd.gauss(0, 1) for _ in range(3)]
        norm = math.sqrt(sum(x * x for x in ax)) or 1.0
        ax = [x / norm for x in ax]
        ang = math.radians(rnd.uniform(-12, 12))
        t = [rnd.uniform(-1.0, 1.0) for _ in range(3)]
        c, s_ = math.cos(ang), math.sin(ang)
        cb = cent[b]

        def move(l):
            p = [xyz(l)[d] - cb[d] for d in range(3)]
            dot = sum(ax[d] * p[d] for d in range(3))
            cross = [ax[1] * p[2] - ax[2] * p[1], ax[2] * p[0] - ax[0] * p[2], ax[0] * p[1] - ax[1] * p[0]]
            q = [p[d] * c + cross[d] * s_ + ax[d] * dot * (1 - c) + cb[d] + t[d] for d in range(3)]
            return l[:30] + "%8.3f%8.3f%8.3f" % tuple(q) + l[54:]

        text = "\n".join(residues[a] + [move(l) for l in residues[b]]) + "\nEND\n"
        try:
            s3d = parser.read_3d_structure(_io.StringIO(text), None)
            s2d, _ = annotator.extract_secondary_structure(s3d, None, False, False)
            bi = s2d.baseInteractions
            outl.append("%d %s|%s" % (trial, ";".join(repr(x) for lst in (bi.basePairs, bi.stackings, bi.baseRiboseInteractions,
                                                                       bi.basePhosphateInteractions) for x in lst),
                                        s2d.extendedDotBracket.replace("\n", "/")))
        except Exception as e:  # noqa: BLE001
            outl.append("%d raised %s" % (trial, type(e).__name__))
    emit(out, item["id"], "pairfuzz_annotations", rep, "\n".join(outl), len(outl) > 0)


def crossmap_item(out, item, rep, tmpdir):
    """The stems of the complete structure asked of a mapping built on a model that lacks one paired residue: the
    library tolerates the missing residue with a warning; whatever it returns must be the same every time."""
    import io as _io
    import random

    from rnapolis import annotator, parser
    from rnapolis.tertiary import Mapping2D3D

    rnd = random.Random(item["gen_seed"])
    with open(item["source"]) as f:
        lines = f.read().splitlines()
    full = parser.read_3d_structure(_io.StringIO("\n".join(lines) + "\n"), None)
    bi = annotator.extract_base_interactions(full)
    m_full = Mapping2D3D(full, bi.basePairs, bi.stackings, False)
    stems = m_full.bpseq.elements[0]
    # victims: residues that take part in a stem of the complete structure
    victims = []
    for st in stems:
        for strand in (st.strand5p, st.strand3p):
            for idx in range(min(strand.first, strand.last), max(strand.first, strand.last) + 1):
                r = m_full.bpseq_index_to_residue_map.get(idx)
                if r is not None and r.auth is not None:
                    victims.append("%s%4d%s" % (r.auth.chain[:1], r.auth.number, r.auth.icode or " "))
    victims = sorted(set(victims)) or sorted({l[21:27] for l in lines if l.startswith("ATOM")})
    outl = []
    for trial in range(3):
        gone = rnd.choice(victims)
        model_lines = [l for l in lines if not (l.startswith(("ATOM  ", "HETATM")) and l[21:27] == gone)]
        model = parser.read_3d_structure(_io.StringIO("\n".join(model_lines) + "\n"), None)
        bim = annotator.extract_base_interactions(model)
        mapping = Mapping2D3D(model, bim.basePairs, bim.stackings, True)
        try:
            coords = [[None if c is None else [round(float(x), 6) for x in c] for c in mapping.get_stem_coordinates(st)] for st in stems]
        except Exception as e:  # noqa: BLE001
            coords = "raised %s" % type(e).__name__
        try:
            params = [mapping.calculate_inter_stem_parameters(stems[a], stems[b]) for a in range(len(stems)) for b in range(a + 1, len(stems))]
        except Exception as e:  # noqa: BLE001
            params = "raised %s" % type(e).__name__
        try:
            pml = annotator.generate_pymol_script(mapping, stems)
        except Exception as e:  # noqa: BLE001
            pml = "raised %s" % type(e).__name__
        outl.append("%d %s %r %r %s" % (trial, gone, coords, params, pml))
    emit(out, item["id"], "crossmap_stem_geometry", rep, "\n".join(outl), len(stems) > 0)


def unifier_gen_item(out, item, rep, tmpdir):
    """`unifier` on two to four copies of one corpus PDB file that disagree on residue identifiers (another chain
    letter, shifted numbers, hydrogens dropped): the vote on the common identifiers has ties to break."""
    import random

    rnd = random.Random(item["gen_seed"])
    with open(item["source"]) as f:
        lines = f.read().splitlines()

    def variant(kind):
        outl = []
        for l in lines:
            if l.startswith(("ATOM  ", "HETATM", "TER")) and len(l) > 26:
                if kind == "chain":
                    l = l[:21] + "B" + l[22:]
                elif kind == "shift" and l[22:26].strip().lstrip("-").isdigit():
                    l = l[:22] + "%4d" % (int(l[22:26]) + 100) + l[26:]
                elif kind == "chainshift" and l[22:26].strip().lstrip("-").isdigit():
                    l = l[:21] + "C" + "%4d" % (int(l[22:26]) + 7) + l[26:]
                elif kind == "nohydrogen" and l.startswith("ATOM") and l[76:78].strip() == "H":
                    continue
            outl.append(l)
        return "\n".join(outl) + "\n"

    kinds = ["same"] + rnd.sample(["chain", "shift", "chainshift", "nohydrogen", "chain"], rnd.randint(1, 3))
    rnd.shuffle(kinds)
    inputs = {"in/u%d.pdb" % k: variant(kind) for k, kind in enumerate(kinds)}
    argv = ["unifier", "-o", "{out}/unified", "-f", item.get("format", "keep")] + ["{out}/" + n for n in sorted(inputs)]
    emit(out, item["id"], "generated_inputs", rep, repr(kinds), False)
    tool_item(out, {"id": item["id"], "module": "rnapolis.unifier", "argv": argv}, rep, tmpdir, nontrivial=True, inputs=inputs)


def derived_item(out, item, rep, tmpdir):
    import random

    with open(item["source"]) as f:
        text = f.read()
    derived = derive_pdb(text, item["variant"], random.Random(item["gen_seed"]))
    path = os.path.join(tmpdir, "derived-%s.pdb" % item["variant"])
    if item.get("as_cif"):
        # the same derived structure as mmCIF (converted with the package's own second-generation reader/writer),
        # so that the mmCIF branch of the first-generation reader meets the feature too
        from rnapolis import parser_v2

        derived = parser_v2.write_cif(parser_v2.parse_pdb_atoms(derived))
        path = path[:-4] + ".cif"
    with open(path, "w") as f:
        f.write(derived)
    emit(out, item["id"], "derived_input", rep, derived, False)
    file_item(out, dict(item, path=path, type="file"), rep, tmpdir)


def _outcome(fn):
    """An output or the refusal: both must be the same everywhere."""
    try:
        r = fn()
    except Exception as e:  # noqa: BLE001
        return "raised %s: %s" % (type(e).__name__, str(e)[:200])
    return r if isinstance(r, (str, bytes)) else repr(r)


def lib_outputs(out, iid, rep, path):
    """Library-level outputs beyond the annotator: the second-generation reader's derived tables and writers, the
    mmCIF item editor and the molecule filter (written mmCIF/PDB text, CSV)."""
    from rnapolis import molecule_filter, parser_v2, tertiary_v2, transformer
    from rnapolis.util import handle_input_file

    with handle_input_file(path) as fh:
        text = fh.read()
    is_pdb = path.endswith(".pdb")
    try:
        df = parser_v2.parse_pdb_atoms(text) if is_pdb else parser_v2.parse_cif_atoms(text)
    except Exception as e:  # noqa: BLE001
        emit(out, iid, "v2_error", rep, "raised %s: %s" % (type(e).__name__, e), False)
        df = None
    if df is not None:
        nt = len(df) > 0
        emit(out, iid, "v2_fit_to_pdb_write_pdb", rep, _outcome(lambda: parser_v2.write_pdb(parser_v2.fit_to_pdb(df))), nt)
        emit(out, iid, "v2_can_write_pdb", rep, _outcome(lambda: repr(parser_v2.can_write_pdb(df))), nt)

        def torsions():
            s = tertiary_v2.Structure(df)
            return s.torsion_angles.to_csv(float_format="%.9g")

        def connected():
            s = tertiary_v2.Structure(df)
            return "\n".join(" ".join(str(r) for r in seg) for seg in s.connected_residues)

        # derived tables that do not fit the PDB format as they are (long chain names, five-digit residue numbers):
        # the renaming / renumbering paths of fit_to_pdb, which no corpus file needs
        chain_col, num_col = ("chainID", "resSeq") if is_pdb else ("auth_asym_id", "auth_seq_id")

        def long_chains():
            d = df.copy()
            d.attrs = dict(df.attrs)
            d[chain_col] = d[chain_col].astype(str).map(lambda c: "CH" + c + "x")
            fitted = parser_v2.fit_to_pdb(d)
            return parser_v2.write_pdb(fitted) + "\n#####\n" + parser_v2.write_cif(d)

        def big_numbers():
            d = df.copy()
            d.attrs = dict(df.attrs)
            d[num_col] = d[num_col].astype(int) + 20000
            fitted = parser_v2.fit_to_pdb(d)
            return parser_v2.write_pdb(fitted) + "\n#####\n" + parser_v2.write_cif(d)

        if chain_col in df.columns and num_col in df.columns:
            emit(out, iid, "v2_fit_long_chain_names", rep, _outcome(long_chains), nt)
            emit(out, iid, "v2_fit_big_residue_numbers", rep, _outcome(big_numbers), nt)
        emit(out, iid, "v2_torsion_angles_csv", rep, _outcome(torsions), nt)
        emit(out, iid, "v2_connected_residues", rep, _outcome(connected), nt)
    if not is_pdb:
        emit(out, iid, "transformer_copy_from_to", rep,
             _outcome(lambda: transformer.copy_from_to(text, "atom_site", "label_asym_id", "auth_asym_id")), True)
        emit(out, iid, "transformer_replace_value", rep,
             _outcome(lambda: transformer.replace_value(text, "atom_site", "auth_asym_id", "ZYXWVUTSRQPONMLKJIHGFEDCBA")), True)
        emit(out, iid, "molecule_filter_by_poly_types", rep,
             _outcome(lambda: molecule_filter.filter_by_poly_types(text, ["polyribonucleotide", "polydeoxyribonucleotide"], ["chem_comp"])), True)
        emit(out, iid, "molecule_filter_by_chains", rep,
             _outcome(lambda: molecule_filter.filter_by_chains(text, ["A", "B"], ["chem_comp", "entity"])), True)


def graphviz_source(bp, tmpdir):
    """The DOT text behind `annotator --dot` (BpSeq.graphviz renders ./Graph.gv with the `dot` binary and returns
    the name of the rendered file; the rendered PDF carries a creation date and is not one of the outputs the
    property lists, the DOT source is)."""
    import shutil

    d = os.path.join(tmpdir, "gv")
    shutil.rmtree(d, ignore_errors=True)
    os.makedirs(d)
    old = os.getcwd()
    os.chdir(d)
    try:
        try:
            rendered = os.path.basename(str(bp.graphviz))
        except Exception as e:  # noqa: BLE001
            rendered = "raised %s" % type(e).__name__
        src = ""
        for n in sorted(os.listdir(d)):
            if n.endswith(".gv"):
                with open(os.path.join(d, n)) as f:
                    src += n + "\n" + f.read()
        return rendered + "\n" + src
    finally:
        os.chdir(old)
        shutil.rmtree(d, ignore_errors=True)


def bpseq_item(out, item, rep, tmpdir=None):
    import pulp

    from rnapolis.common import BpSeq, Entry

    iid = item["id"]
    for solver_name in item["solvers"]:
        # the process-global default solver is part of the configuration of *this* item only; main()
        # restores the import-time default after every item
        if solver_name == "none":
            pulp.LpSolverDefault = None
        else:
            pulp.LpSolverDefault = pulp.PULP_CBC_CMD(msg=False)
        bp = BpSeq([Entry(i, c, j) for i, c, j in item["triples"]])
        has_pairs = any(j for _, _, j in item["triples"])

        def elements_json():
            # the element objects as orjson sees them (instance attributes included) - the way Structure2D is written
            import orjson

            return orjson.dumps([list(group) for group in bp.elements], option=orjson.OPT_SERIALIZE_NUMPY)

        def listing():
            alls = bp.all_dot_brackets
            return "\n".join(str(d) for d in alls), len(alls) >= 2

        queries = [
            ("all_dot_brackets", listing),
            ("dot_bracket", lambda: (str(bp.dot_bracket), has_pairs)),
            ("fcfs", lambda: (str(bp.fcfs), has_pairs)),
            ("bpseq", lambda: (str(bp), has_pairs)),
            ("elements", lambda: ("\n".join(str(e) for lst in bp.elements for e in lst), has_pairs)),
            ("elements_json", lambda: (elements_json(), has_pairs)),
            ("without_pseudoknots", lambda: (str(bp.without_pseudoknots()), has_pairs)),
            ("without_isolated", lambda: (str(bp.without_isolated()), has_pairs)),
        ]
        if item.get("only"):
            queries = [q for q in queries if q[0] in item["only"]]
        if item.get("graphviz") and solver_name == item["solvers"][0]:
            queries.append(("graphviz_source", lambda: (graphviz_source(bp, tmpdir), has_pairs)))
        # the queries are asked in an order of this interpreter's and this repetition's own: an answer that depends
        # on which other queries were answered before it on the same object differs between interpreters
        order = os.environ.get("VERIF_C14_ORDER")
        if order is not None:
            import random

            random.Random("%s|%d|%s|%s" % (order, rep, iid, solver_name)).shuffle(queries)
        for kind, fn in queries:
            data, nontrivial = fn()
            emit(out, iid, kind + ("" if kind == "graphviz_source" else "@" + solver_name), rep, data, nontrivial)


def tool_item(out, item, rep, tmpdir, nontrivial=None, inputs=None):
    """One of the package's command-line tools run in-process: stdout plus every file it wrote.  `inputs`
    ({relative name: text}) are generated input files, written into the output directory first so that every
    path the tool prints can be normalised."""
    import importlib
    import shutil

    outdir = os.path.join(tmpdir, "tool-out")
    shutil.rmtree(outdir, ignore_errors=True)
    os.makedirs(outdir)
    for name, text in (inputs or {}).items():
        os.makedirs(os.path.dirname(os.path.join(outdir, name)), exist_ok=True)
        with open(os.path.join(outdir, name), "w") as f:
            f.write(text)
    argv = [a.replace("{out}", outdir) for a in item["argv"]]
    module = importlib.import_module(item["module"])
    buf, err = io.StringIO(), io.StringIO()
    old = sys.argv
    sys.argv = argv
    status = "ok"
    try:
        with contextlib.redirect_stdout(buf), contextlib.redirect_stderr(err):
            module.main()
    except SystemExit as e:
        status = "exit %s" % (e.code,)
    except Exception as e:  # noqa: BLE001
        status = "raised %s" % type(e).__name__
    finally:
        sys.argv = old
    text = buf.getvalue().replace(outdir, "<out>")
    emit(out, item["id"], "tool_stdout", rep, status + "\n" + text, len(text) > 0 if nontrivial is None else nontrivial)
    files = []
    for root, _, names in sorted(os.walk(outdir)):
        for n in sorted(names):
            files.append(os.path.join(root, n))
    blob = []
    for f in files:
        with open(f, "rb") as fh:
            data = fh.read()
        blob.append(os.path.relpath(f, outdir).encode() + b"\n" + data.replace(outdir.encode(), b"<out>") + b"\n")
    emit(out, item["id"], "tool_files", rep, b"".join(blob), len(files) > 0)
    if item.get("rerun") and rep == 0:
        # the same command once more into the same directory, with the files of the first run still there: the
        # bytes it leaves must be the same (reported as a third repetition of the same cell)
        sys.argv = argv
        buf2, err2 = io.StringIO(), io.StringIO()
        status2 = "ok"
        try:
            with contextlib.redirect_stdout(buf2), contextlib.redirect_stderr(err2):
                module.main()
        except SystemExit as e:
            status2 = "exit %s" % (e.code,)
        except Exception as e:  # noqa: BLE001
            status2 = "raised %s" % type(e).__name__
        finally:
            sys.argv = old
        emit(out, item["id"], "tool_stdout", 2, status2 + "\n" + buf2.getvalue().replace(outdir, "<out>"),
             len(text) > 0 if nontrivial is None else nontrivial)
        blob2 = []
        for root, _, names in sorted(os.walk(outdir)):
            for n in sorted(names):
                f = os.path.join(root, n)
                with open(f, "rb") as fh:
                    data = fh.read()
                blob2.append(os.path.relpath(f, outdir).encode() + b"\n" + data.replace(outdir.encode(), b"<out>") + b"\n")
        emit(out, item["id"], "tool_files", 2, b"".join(blob2), len(blob2) > 0)
    shutil.rmtree(outdir, ignore_errors=True)


COMPLEMENT = {"A": "U", "U": "AG", "C": "G", "G": "CU", "T": "A"}
NONCANONICAL = ["tWW", "cWH", "cHW", "tHW", "tWH", "cSS", "tSH", "tHS", "cHS", "cWS", "tHH", "ncWW", "cWWa", "ncSs"]


def adapter_gen_item(out, item, rep, tmpdir):
    """`adapter` on a corpus structure with a *generated* external annotation (FR3D format): helices, extra
    non-canonical pairs and - the point - residues annotated with two or three canonical pairs at once, some of
    equal rank (same partner letter), so that Mapping2D3D's conflict resolution and multiplet handling have ties
    to break.  The annotation text is a pure function of item['gen_seed'] and the residue list of the file."""
    import random

    from rnapolis import adapter, parser
    from rnapolis.util import handle_input_file

    with handle_input_file(item["path"]) as fh:
        structure3d = parser.read_3d_structure(fh, None)
    nts = [r for r in structure3d.residues if r.is_nucleotide and r.auth is not None]
    rnd = random.Random(item["gen_seed"])
    n = len(nts)
    if n < 4:
        emit(out, item["id"], "generated_annotation", rep, "<fewer than four nucleotides with author identifiers>", False)
        return

    def uid(r):
        base = "XXXX|1|%s|%s|%d" % (r.auth.chain, r.auth.name, r.auth.number)
        if r.auth.icode:
            base += "|||%s" % r.auth.icode
        return base

    def letter(k):
        return nts[k].one_letter_name.upper()

    def partners(k, same_as=None):
        want = COMPLEMENT.get(letter(k), "")
        cands = [m for m in range(n) if m != k and letter(m) in want]
        if same_as is not None:
            same = [m for m in cands if letter(m) == letter(same_as) and m != same_as]
            if same:
                return same
        return cands

    pairs = []  # (a, b, class)
    if n >= 4:
        for _ in range(rnd.randint(1, 4)):
            i = rnd.randrange(0, n - 3)
            j = rnd.randrange(i + 3, n)
            length = rnd.randint(1, 5)
            for t in range(length):
                if i + t + 2 < j - t:
                    pairs.append((i + t, j - t, "cWW"))
        for _ in range(rnd.randint(2, 8)):
            a = rnd.randrange(n)
            cands = partners(a)
            if cands:
                pairs.append((a, rnd.choice(cands), "cWW"))
        for _ in range(rnd.randint(0, 6)):
            a, b = rnd.randrange(n), rnd.randrange(n)
            if a != b:
                pairs.append((a, b, rnd.choice(NONCANONICAL)))
        # conflicts: a residue that already has a canonical partner gets another one, preferably of the same letter
        for _ in range(rnd.randint(2, 6)):
            cww = [p for p in pairs if p[2] == "cWW"]
            if not cww:
                break
            a, b, _c = rnd.choice(cww)
            if rnd.random() < 0.5:
                a, b = b, a
            cands = partners(a, same_as=b if rnd.random() < 0.75 else None)
            if cands:
                pairs.append((a, rnd.choice(cands), "cWW"))
    lines = []
    for a, b, cls in pairs:
        lines.append("%s\t%s\t%s\t0" % (uid(nts[a]), cls, uid(nts[b])))
        if rnd.random() < 0.7:
            rev = cls
            if len(cls) == 3:
                rev = cls[0] + cls[2] + cls[1]
            lines.append("%s\t%s\t%s\t0" % (uid(nts[b]), rev, uid(nts[a])))
    for k in range(n - 1):
        if rnd.random() < 0.5:
            cls = rnd.choice(["s35", "s53", "s33", "s55"])
            lines.append("%s\t%s\t%s\t0" % (uid(nts[k]), cls, uid(nts[k + 1])))
            if rnd.random() < 0.6:
                lines.append("%s\t%s\t%s\t0" % (uid(nts[k + 1]), cls[0] + cls[2] + cls[1], uid(nts[k])))
    for _ in range(rnd.randint(0, 4)):
        a, b = rnd.randrange(n), rnd.randrange(n)
        if a != b:
            lines.append("%s\t%s\t%s\t0" % (uid(nts[a]), rnd.choice(["0BPh", "7BPh", "4BPh", "0BR", "2BR"]), uid(nts[b])))
    rnd.shuffle(lines)
    text = "\n".join(lines) + "\n"
    ext = os.path.join(tmpdir, "generated-fr3d.txt")
    with open(ext, "w") as f:
        f.write(text)
    emit(out, item["id"], "generated_annotation", rep, text, False)
    argv = ["adapter", item["path"], "--external", ext, "--tool", "fr3d"]
    if item.get("find_gaps"):
        argv.append("-f")
    if item.get("flag", "-a"):
        argv.append(item.get("flag", "-a"))
    argv += ["--csv", "{out}/o.csv", "--json", "{out}/o.json", "--bpseq", "{out}/o.bpseq",
             "--inter-stem-csv", "{out}/inter.csv", "--stems-csv", "{out}/stems.csv"]
    tool_item(out, {"id": item["id"], "module": "rnapolis.adapter", "argv": argv, "rerun": item.get("rerun")}, rep, tmpdir,
              nontrivial=len(pairs) > 0)


def main():
    manifest_path, out_path = sys.argv[1], sys.argv[2]
    sys.path.insert(0, os.environ.get("VERIF_REPO_SRC", "/repo/src"))
    skew_days = int(os.environ.get("VERIF_C14_CLOCK_SKEW_DAYS", "0") or 0)
    if skew_days:
        # the wall clock behind a seam: this interpreter lives `skew_days` days in the future, so that an output which
        # carries a date (not only one that carries a time of day) differs between interpreters.  Installed before
        # the package is imported; monotonic clocks (durations) are left alone.
        import datetime as _dt

        _real_time = time.time
        _offset = skew_days * 86400.0
        time.time = lambda: _real_time() + _offset
        _real_localtime, _real_gmtime = time.localtime, time.gmtime
        time.localtime = lambda secs=None: _real_localtime(time.time() if secs is None else secs)
        time.gmtime = lambda secs=None: _real_gmtime(time.time() if secs is None else secs)
        _real_strftime = time.strftime
        time.strftime = lambda fmt, t=None: _real_strftime(fmt, time.localtime() if t is None else t)

        class _SkewedDateTime(_dt.datetime):
            @classmethod
            def now(cls, tz=None):
                return cls.fromtimestamp(time.time(), tz)

            @classmethod
            def utcnow(cls):
                return cls.fromtimestamp(time.time(), _dt.timezone.utc).replace(tzinfo=None)

            @classmethod
            def today(cls):
                return cls.fromtimestamp(time.time())

        class _SkewedDate(_dt.date):
            @classmethod
            def today(cls):
                return cls.fromtimestamp(time.time())

        _dt.datetime = _SkewedDateTime
        _dt.date = _SkewedDate
    level = os.environ.get("VERIF_C14_LOGLEVEL")
    if level in ("DEBUG", "INFO"):
        # log verbosity is part of the environment an output must not depend on: this interpreter runs with the
        # package's LOGLEVEL switch on (records go to a null handler installed before the package configures logging)
        os.environ["LOGLEVEL"] = level
        root = logging.getLogger()
        root.addHandler(logging.NullHandler())
        root.setLevel(getattr(logging, level))
    else:
        logging.disable(logging.CRITICAL)
    with open(manifest_path) as f:
        manifest = json.load(f)
    tmpdir = tempfile.mkdtemp(prefix="c14-", dir=manifest["tmp"])
    os.environ["TMPDIR"] = tmpdir
    os.environ.pop("TMP", None)
    t0 = time.monotonic()
    with open(out_path, "w") as out:
        out.write("H hashseed=%s python=%s loglevel=%s clock_skew_days=%d optimize=%d\n" % (
            os.environ.get("PYTHONHASHSEED"), sys.version.split()[0], level, skew_days, sys.flags.optimize))
        import pulp

        default_solver = pulp.LpSolverDefault
        order_seed = os.environ.get("VERIF_C14_ORDER")
        stop_after = os.environ.get("VERIF_C14_STOP_AFTER")
        stopped = False
        for rep in (0, 1):
            items = list(manifest["items"])
            if order_seed is not None:
                # every interpreter visits the items in its own seeded order (and in another one the second
                # time), so that an output that depends on what ran before it in the process shows up as a
                # digest difference between interpreters or repetitions
                import random

                random.Random(int(order_seed) * 2 + rep).shuffle(items)
            for item in items:
                if stopped:
                    break
                if rep >= item.get("reps", 2):
                    continue  # a dear item computed once per interpreter
                t1 = time.monotonic()
                try:
                    if item["type"] == "file":
                        file_item(out, item, rep, tmpdir)
                    elif item["type"] == "tool":
                        tool_item(out, item, rep, tmpdir)
                    elif item["type"] == "adapter_gen":
                        adapter_gen_item(out, item, rep, tmpdir)
                    elif item["type"] == "derived":
                        derived_item(out, item, rep, tmpdir)
                    elif item["type"] == "unifier_gen":
                        unifier_gen_item(out, item, rep, tmpdir)
                    elif item["type"] == "pairfuzz":
                        pairfuzz_item(out, item, rep, tmpdir)
                    elif item["type"] == "crossmap":
                        crossmap_item(out, item, rep, tmpdir)
                    else:
                        bpseq_item(out, item, rep, tmpdir)
                except Exception as e:  # noqa: BLE001 - an exception is an output too, and must be the same everywhere
                    emit(out, item["id"], "exception", rep, "%s: %s" % (type(e).__name__, e), False)
                finally:
                    pulp.LpSolverDefault = default_solver
                out.write("T %s %d %.2f\n" % (item["id"], rep, time.monotonic() - t1))
                if stop_after == "%s:%d" % (item["id"], rep):
                    stopped = True
        out.write("E wall=%.1f\n" % (time.monotonic() - t0))


if __name__ == "__main__":
    main()
