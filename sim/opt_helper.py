"""A long-lived `python -O` interpreter that executes simulated runs on request.

The interpreter's optimisation flag (asserts stripped, `__debug__` false) is fixed when a process starts, so a
world in which the code under test runs optimised cannot be entered by a fork of the normal worker.  Each pool
worker therefore keeps one of these helpers and hands it the runs whose world says "optimised"; the helper executes
each request in a forked child of its own (same isolation as the normal path) and answers with the pickled result.

Protocol (binary, over stdin/stdout): 4-byte big-endian length + pickle, both directions.
Request: ("run_index", engine, seed, tier, i) | ("execute_run", engine, run).  Reply: ("ok", result) | ("died", text)
| ("err", text).
"""
import os
import pickle
import struct
import sys


def _read(stream):
    head = stream.read(4)
    if len(head) < 4:
        return None
    (n,) = struct.unpack(">I", head)
    return pickle.loads(stream.read(n))


def _write(stream, obj):
    data = pickle.dumps(obj)
    stream.write(struct.pack(">I", len(data)) + data)
    stream.flush()


def serve():
    import logging

    sys.path.insert(0, os.environ.get("VERIF_REPO_SRC", "/repo/src"))
    sys.path.insert(0, os.path.dirname(os.path.dirname(os.path.abspath(__file__))))
    from sim import runner

    logging.disable(logging.CRITICAL)
    inp, out = sys.stdin.buffer, sys.stdout.buffer
    sys.stdout = sys.stderr  # nothing but replies on the pipe
    _write(out, ("hello", sys.flags.optimize))
    while True:
        req = _read(inp)
        if req is None:
            return
        try:
            eng = runner.get_engine(req[1])
            if req[0] == "run_index":
                runner.preload(eng, req[3])
                res = runner.isolated(eng.run_index, req[2], req[3], req[4], runner.worker_tmp())
            else:
                res = runner.isolated(eng.execute_run, req[2], runner.worker_tmp())
            _write(out, ("ok", res))
        except runner.RunDied as e:
            _write(out, ("died", str(e)))
        except BaseException as e:  # noqa: BLE001
            import traceback

            _write(out, ("err", "%s: %s\n%s" % (type(e).__name__, e, traceback.format_exc()[-1500:])))


if __name__ == "__main__":
    serve()
