"""C14 - outputs are a deterministic function of the input.

The nondeterminism source behind the seam is the interpreter itself: its hash seed (PYTHONHASHSEED)
and process identity.  The driver builds a seeded workload manifest, launches K fresh interpreters
under different hash seeds (each computes everything twice in-process), and compares digests.
"""
import json
import os
import subprocess
import sys
import time

from . import oracles, rng, runner, shrink, structures

NAME = "C14"
LEVEL = "exploration"

PLAN = {
    "quick": {"hashseeds": 12, "shards": 4, "generated": 240, "skip": ["1gid.cif.gz"], "cli_all_variants": False,
              "timeout": 600, "light_hashseeds": 16, "light_max_cost": 150_000, "adapter_generated": 36, "derived_rounds": 1, "unifier_generated": 8, "pairfuzz": 10, "crossmap": 4, "deep": 1, "deep_hashseeds": 2},
    "thorough": {"hashseeds": 32, "shards": 4, "generated": 2000, "skip": [], "cli_all_variants": True,
                 "timeout": 5400, "light_hashseeds": 48, "light_max_cost": 150_000, "adapter_generated": 300, "derived_rounds": 4, "unifier_generated": 60, "pairfuzz": 80, "crossmap": 20, "deep": 3, "deep_hashseeds": 3},
}

ASSUMPTIONS = [
    "nondeterminism sources sampled: PYTHONHASHSEED (numeric values and 'random'), process identity / object "
    "addresses (fresh interpreters), repeated computation in one process on freshly built objects, what ran earlier "
    "in the process (per-interpreter visiting order), log verbosity (every third interpreter at LOGLEVEL=DEBUG), the "
    "wall clock (interpreters live 0, 401, 802 or 1203 days ahead; monotonic clocks untouched), the interpreter's "
    "optimisation flag (every fourth interpreter runs with PYTHONOPTIMIZE=1), the working directory (root, the "
    "directory above the corpus, a scratch directory)",
    "corpus = every non-empty .cif/.pdb/.cif.gz under /repo/tests (quick tier skips the slow 1gid.cif.gz), each "
    "with find_gaps in {False, True}; generated secondary structures are seeded and biased towards several "
    "independent knotted groups so that the all-dot-brackets list has >= 2 members",
    "the MILP back-end is the real bundled CBC (the only one installed) and, for generated structures, also none",
    "a 2-element hash-ordered container escapes K hash seeds with probability 2^-(K-1)",
]

CHILD = os.path.join(os.path.dirname(os.path.abspath(__file__)), "c14_child.py")
TESTS = os.path.join(os.path.dirname(os.environ.get("VERIF_REPO_SRC", "/repo/src").rstrip("/")), "tests")


def hashseeds(tier, seed):
    k = PLAN[tier]["hashseeds"]
    out = [str((seed * 1009 + j) % 4294967296) for j in range(k - 1)]
    out.append("random")
    return out


def corpus_items(tier):
    plan = PLAN[tier]
    items = []
    if not os.path.isdir(TESTS):
        return items
    for name in sorted(os.listdir(TESTS)):
        if not (name.endswith(".cif") or name.endswith(".pdb") or name.endswith(".cif.gz")):
            continue
        path = os.path.join(TESTS, name)
        if os.path.getsize(path) == 0 or name in plan["skip"]:
            continue
        for gaps in (False, True):
            small = os.path.getsize(path) < 300_000
            thorough = plan["cli_all_variants"]
            items.append({"id": "corpus/%s/gaps%d" % (name, int(gaps)), "type": "file", "path": path,
                          "find_gaps": gaps, "v2": not gaps, "v2_repeat": small or thorough,
                          "cli": (not gaps) or thorough, "cli_repeat": small or thorough,
                          "rerun": (not gaps) and os.path.getsize(path) < 60_000,
                          "lib": (not gaps) and (os.path.getsize(path) < 90_000 or thorough),
                          "lib_repeat": os.path.getsize(path) < 40_000 or thorough,
                          "cli_variants": ["-a", "-e", ""] if thorough else ["-a"],
                          "cost": os.path.getsize(path) * (3 if name.endswith(".gz") else 1)})
    return items


def tool_items(tier):
    """Other command-line tools of the package on small corpus files (stdout + every file they write)."""
    T = TESTS
    def f(name):
        return os.path.join(T, name)
    specs = [
        ("adapter-fr3d-184D", "rnapolis.adapter", ["adapter", f("184D.cif"), "--external", f("184D-fr3d.txt"), "--tool", "fr3d",
                                                   "-a", "--csv", "{out}/o.csv", "--json", "{out}/o.json", "--bpseq", "{out}/o.bpseq"], ["184D.cif", "184D-fr3d.txt"]),
        ("adapter-fr3d-184D-extended", "rnapolis.adapter", ["adapter", f("184D.cif"), "--external", f("184D-fr3d.txt"), "--tool", "fr3d", "-e"], ["184D.cif", "184D-fr3d.txt"]),
        ("clashfinder-1A1T", "rnapolis.clashfinder", ["clashfinder", f("1A1T_1_B.cif"), "--csv", "{out}/clashes.csv"], ["1A1T_1_B.cif"]),
        ("clashfinder-1DFU-molprobity", "rnapolis.clashfinder", ["clashfinder", f("1DFU_1_M-N.cif"), "--enable-molprobity-mode", "--ignore-occupancy", "--csv", "{out}/clashes.csv"], ["1DFU_1_M-N.cif"]),
        ("clashfinder-1ATO", "rnapolis.clashfinder", ["clashfinder", f("1ATO.pdb"), "--nucleic-acid-only", "--csv", "{out}/clashes.csv"], ["1ATO.pdb"]),
        ("metareader-list-4WTI", "rnapolis.metareader", ["metareader", f("4WTI_1_T-P.cif"), "-l"], ["4WTI_1_T-P.cif"]),
        ("metareader-csv-1DFU", "rnapolis.metareader", ["metareader", f("1DFU_1_M-N.cif"), "-c", "atom_site", "--csv-directory", "{out}"], ["1DFU_1_M-N.cif"]),
        ("motif-extractor-bpseq", "rnapolis.motif_extractor", ["motif-extractor", "--bpseq", f("1ET4-A.bpseq"), "--remove-pseudoknots", "--remove-isolated"], ["1ET4-A.bpseq"]),
        ("motif-extractor-dbn", "rnapolis.motif_extractor", ["motif-extractor", "--dbn", f("1EHZ.dbn")], ["1EHZ.dbn"]),
        ("splitter-1ATO", "rnapolis.splitter", ["splitter", "-o", "{out}", "-f", "mmCIF", f("1ATO.pdb")], ["1ATO.pdb"]),
        ("splitter-1A1T", "rnapolis.splitter", ["splitter", "-o", "{out}", "-f", "PDB", f("1A1T_1_B.cif")], ["1A1T_1_B.cif"]),
        ("unifier-1E7K", "rnapolis.unifier", ["unifier", "-o", "{out}", f("1E7K_1_C.cif"), f("1E7K_1_C_modified.cif")], ["1E7K_1_C.cif", "1E7K_1_C_modified.cif"]),
    ]
    items = []
    for name, module, argv, needs in specs:
        if all(os.path.exists(f(n)) for n in needs):
            items.append({"id": "tool/" + name, "type": "tool", "module": module, "argv": argv, "rerun": True, "cost": 400000})
    return items


ADAPTER_FILES = ["1ehz-assembly-1.cif", "1ehz-assembly-1.cif", "488d.pdb", "1a9n.cif", "1JJP.cif", "6FC9.cif",
                 "1A1T_1_B.cif", "1ATO.pdb", "1E7K_1_C.cif", "184D.cif", "4qln.pdb",
                 "q-ugg-5k-salt_400-500ns_frame1065.pdb", "4gqj-assembly1.cif"]


def adapter_generated_items(tier, seed):
    """`adapter` runs on small corpus structures with seeded *generated* external annotations that contain
    conflicting canonical pairs (a residue with two partners, often of equal rank) - the tie situations of
    Mapping2D3D's conflict resolution that no corpus file offers."""
    out = []
    files = [f for f in ADAPTER_FILES if os.path.exists(os.path.join(TESTS, f))]
    if not files:
        return out
    for i in range(PLAN[tier]["adapter_generated"]):
        s = rng.stream(NAME, tier, seed, i, "adapter")
        out.append({"id": "adaptergen/%d" % i, "type": "adapter_gen", "path": os.path.join(TESTS, s.choice(files)),
                    "gen_seed": s.getrandbits(48), "find_gaps": s.random() < 0.25,
                    "flag": s.choice(["-a", "-e", "-e", "", ""]), "rerun": i % 4 == 0, "cost": 60000})
    return out


DERIVED_SOURCES = ["1ATO.pdb", "488d.pdb", "q-ugg-5k-salt_400-500ns_frame1065.pdb"]
DERIVED_VARIANTS = ["altloc", "dupatoms", "icode", "models", "twinchain", "protonated", "jitter"]


def derived_items(tier, seed):
    """Corpus PDB files with a feature added that no corpus file has (alternate locations with tied occupancies,
    duplicated atoms, insertion codes, a second model): the reader's choices among atoms, locations and models."""
    out = []
    k = 0
    for rep in range(PLAN[tier]["derived_rounds"]):
        for src in DERIVED_SOURCES:
            path = os.path.join(TESTS, src)
            if not os.path.exists(path):
                continue
            for variant in DERIVED_VARIANTS:
                s = rng.stream(NAME, tier, seed, k, "derived")
                out.append({"id": "derived/%d-%s-%s" % (k, src.split(".")[0][:6], variant), "type": "derived", "source": path,
                            "variant": variant, "gen_seed": s.getrandbits(48), "find_gaps": s.random() < 0.3,
                            "as_cif": k % 3 == 1,
                            "v2": True, "v2_repeat": False, "cli": False,
                            "lib": PLAN[tier]["cli_all_variants"] and rep == 0, "lib_repeat": False, "cost": 400000})
                k += 1
            # twins: the same residue renamed to one non-standard name, fully and partly modelled
            s = rng.stream(NAME, tier, seed, k, "derived")
            gs = s.getrandbits(48)
            for variant in ("modres_full", "modres_part"):
                out.append({"id": "derived/%d-%s-%s" % (k, src.split(".")[0][:6], variant), "type": "derived", "source": path,
                            "variant": variant, "gen_seed": gs, "find_gaps": False, "as_cif": False,
                            "v2": False, "v2_repeat": False, "cli": False, "lib": False, "lib_repeat": False, "cost": 400000})
                k += 1
    return out


def pairfuzz_items(tier, seed):
    """Coordinate-level fuzzing of the 3D annotation on two-residue fragments (see c14_child.pairfuzz_item)."""
    out = []
    for i in range(PLAN[tier]["pairfuzz"]):
        s = rng.stream(NAME, tier, seed, i, "pairfuzz")
        src = os.path.join(TESTS, s.choice(["1ATO.pdb", "488d.pdb", "q-ugg-5k-salt_400-500ns_frame1065.pdb"]))
        if os.path.exists(src):
            out.append({"id": "pairfuzz/%d" % i, "type": "pairfuzz", "source": src, "gen_seed": s.getrandbits(48),
                        "trials": 50, "cost": 30000})
    return out


def crossmap_items(tier, seed):
    """Stems of a complete structure evaluated on a model of it that lacks a residue (a reference 2D structure
    scored on an incomplete 3D model): stem coordinates, inter-stem parameters, PyMOL script."""
    out = []
    for i in range(PLAN[tier]["crossmap"]):
        s = rng.stream(NAME, tier, seed, i, "crossmap")
        src = os.path.join(TESTS, s.choice(["1ATO.pdb", "488d.pdb", "4qln.pdb"]))
        if os.path.exists(src):
            out.append({"id": "crossmap/%d" % i, "type": "crossmap", "source": src, "gen_seed": s.getrandbits(48), "cost": 200000})
    return out


def unifier_generated_items(tier, seed):
    out = []
    for i in range(PLAN[tier]["unifier_generated"]):
        s = rng.stream(NAME, tier, seed, i, "unifier")
        src = os.path.join(TESTS, s.choice(["1ATO.pdb", "1ATO.pdb", "488d.pdb"]))
        if os.path.exists(src):
            out.append({"id": "unifiergen/%d" % i, "type": "unifier_gen", "source": src, "gen_seed": s.getrandbits(48),
                        "format": s.choice(["keep", "PDB", "mmCIF"]), "cost": 60000})
    return out


def generated_items(tier, seed):
    out = []
    for i in range(PLAN[tier]["generated"]):
        s = rng.stream(NAME, tier, seed, i, "structure")
        mode = s.random()
        if mode < 0.55:
            st = structures.gen_multi_group(s, 2, 4)
        elif mode < 0.65:
            st = structures.gen_many(s, 10, 14)
        else:
            st = structures.gen_structure(s, max_stems=6, max_len=3, knotted_bias=0.7)
        out.append({"id": "gen/%d" % i, "type": "bpseq", "triples": st["triples"],
                    "solvers": ["cbc", "none"] if i % 3 == 0 else ["cbc"], "graphviz": i % 6 == 1, "cost": 20000})
    return out


def deep_items(tier, seed):
    """Listings that are dear on the unchanged tree: one knotted group of ten stems (10! orderings, about two minutes
    each).  Computed once per interpreter by a few interpreters of their own, alongside the main pass - the size at
    which an 'optimisation' that samples or truncates the enumeration would first act."""
    out = []
    for i in range(PLAN[tier].get("deep", 0)):
        s = rng.stream(NAME, tier, seed, i, "deep")
        st = structures.gen_band(s, 10)
        out.append({"id": "deep/%d" % i, "type": "bpseq", "triples": st["triples"], "solvers": ["cbc"],
                    "only": ["all_dot_brackets"], "reps": 1, "graphviz": False, "cost": 10_000_000})
    return out


def shard(items, n):
    bins = [[] for _ in range(n)]
    load = [0] * n
    for it in sorted(items, key=lambda d: (-d["cost"], d["id"])):
        k = load.index(min(load))
        bins[k].append(it)
        load[k] += it["cost"]
    return [sorted(b, key=lambda d: d["id"]) for b in bins]


def loglevel_of(hs):
    """Log verbosity of the interpreter that runs under hash seed `hs` (a pure function of the seed, so that a
    replay with the same seeds reproduces it): every third numeric seed DEBUG, 'random' INFO, the rest silent."""
    if hs == "random":
        return "INFO"
    return "DEBUG" if int(hs) % 3 == 2 else "off"


def clock_skew_of(hs):
    """How many days ahead of the real wall clock the interpreter under hash seed `hs` lives (a pure function of
    the seed): an output that carries a date differs between interpreters."""
    if hs == "random":
        return 0
    return (int(hs) % 4) * 401


def cwd_of(hs, tmp):
    """The working directory of the interpreter under hash seed `hs`: the file-system root, the directory above the
    corpus (so that the inputs lie below it) or a scratch directory.  Inputs and outputs are given as absolute
    paths, so no output has a reason to depend on it."""
    if hs == "random":
        return tmp
    return ["/", os.path.dirname(TESTS), tmp][int(hs) % 3]


def launch(jobs, workers, timeout, tmp):
    """jobs: list of (tag, hashseed, manifest path, out path[, extra env]).  Runs at most `workers` at a time."""
    pending = list(jobs)
    running = []
    t0 = time.time()
    failures = []
    while pending or running:
        while pending and len(running) < workers:
            job = pending.pop(0)
            tag, hs, mpath, opath = job[:4]
            env = dict(os.environ)
            env["PYTHONHASHSEED"] = hs
            env["VERIF_C14_LOGLEVEL"] = loglevel_of(hs)
            env["VERIF_C14_CLOCK_SKEW_DAYS"] = str(clock_skew_of(hs))
            env.pop("PYTHONOPTIMIZE", None)
            if hs != "random" and int(hs) % 4 == 3:
                env["PYTHONOPTIMIZE"] = "1"  # every fourth interpreter strips asserts
            env.pop("LOGLEVEL", None)
            env.pop("VERIF_KEEP_HASHSEED", None)
            env.pop("VERIF_C14_ORDER", None)
            env.pop("VERIF_C14_STOP_AFTER", None)
            if len(job) > 4:
                env.update(job[4])
            errf = open(opath + ".err", "wb")
            p = subprocess.Popen([sys.executable, CHILD, mpath, opath], env=env, cwd=cwd_of(hs, tmp),
                                 stdout=subprocess.DEVNULL, stderr=errf)
            errf.close()
            running.append((tag, p, opath + ".err"))
        time.sleep(0.05)
        still = []
        for tag, p, errpath in running:
            rc = p.poll()
            if rc is None:
                if time.time() - t0 > timeout:
                    p.kill()
                    p.wait()
                    failures.append("%s: timeout" % (tag,))
                else:
                    still.append((tag, p, errpath))
            elif rc != 0:
                with open(errpath, "rb") as ef:
                    failures.append("%s: exit %d: %s" % (tag, rc, ef.read().decode(errors="replace")[-800:]))
        running = still
    return failures


def parse(opath):
    rows = []
    complete = False
    with open(opath) as f:
        for line in f:
            if line.startswith("D "):
                _, item, kind, rep, h, size, nt = line.split()
                rows.append((item, kind, int(rep), h, int(size), nt == "1"))
            elif line.startswith("E "):
                complete = True
    return rows, complete


def order_seed_of(seed, hs, b):
    return rng.derive(NAME, "order", seed, hs, b) % (1 << 30)


def explore(items, seeds, shards, workers, timeout, tmp, shuffle_seed=None, context=None):
    """Returns (cells, nontrivial, rows, failures): cells[(item, kind)] = {(hashseed, rep): digest}.
    With shuffle_seed every interpreter visits its items in its own seeded order.  `context` (optional
    dict) is filled with what each interpreter ran: context[(hashseed, shard)] = {order_seed, items}."""
    os.makedirs(tmp, exist_ok=True)
    bins = shard(items, shards)
    jobs = []
    for b, its in enumerate(bins):
        if not its:
            continue
        mpath = os.path.join(tmp, "manifest-%d.json" % b)
        with open(mpath, "w") as f:
            json.dump({"tmp": tmp, "items": its}, f)
        for hs in seeds:
            extra = {}
            if shuffle_seed is not None:
                extra["VERIF_C14_ORDER"] = str(order_seed_of(shuffle_seed, hs, b))
            if context is not None:
                context[(hs, b)] = {"hashseed": hs, "shard": b, "order_seed": extra.get("VERIF_C14_ORDER"),
                                    "items": [it["id"] for it in its]}
            jobs.append(("hashseed=%s shard=%d" % (hs, b), hs, mpath, os.path.join(tmp, "out-%s-%d.txt" % (hs, b)), extra))
    # heavy shards first
    failures = launch(jobs, workers, timeout, tmp)
    cells = {}
    nontrivial = {}
    rows_total = 0
    for tag, hs, mpath, opath, _extra in jobs:
        if not os.path.exists(opath):
            failures.append("%s: no output" % tag)
            continue
        rows, complete = parse(opath)
        if not complete:
            failures.append("%s: incomplete output" % tag)
        for item, kind, rep, h, size, nt in rows:
            cells.setdefault((item, kind), {})[(hs, rep)] = h
            nontrivial[(item, kind)] = nontrivial.get((item, kind), False) or nt
            rows_total += 1
    return cells, nontrivial, rows_total, failures


def find_violations(cells):
    out = []
    for (item, kind), m in sorted(cells.items()):
        if len(set(m.values())) <= 1:
            continue
        by_seed = {}
        for (hs, rep), h in m.items():
            by_seed.setdefault(hs, {})[rep] = h
        in_process = sorted(hs for hs, reps in by_seed.items() if len(set(reps.values())) > 1)
        rerun_only = in_process and all(len({h for r, h in reps.items() if r != 2}) <= 1 for reps in by_seed.values()) \
            and len({h for reps in by_seed.values() for r, h in reps.items() if r != 2}) <= 1
        clause = "identical-on-repeated-calls-in-one-process" if in_process else "identical-across-hash-seeds"
        if rerun_only:
            clause = "identical-when-run-again-into-the-same-directory"
        out.append({"item": item, "kind": kind, "clause": clause,
                    "digests": {"%s/%d" % k: v[:16] for k, v in sorted(m.items())},
                    "signature": [clause, kind.split("@")[0]]})
    return out


def pick_pair(m):
    """Two (hashseed, rep) observations with different digests, numeric hash seeds preferred."""
    obs = sorted(m.items(), key=lambda kv: (kv[0][0] == "random", kv[0]))
    for a in range(len(obs)):
        for b in range(a + 1, len(obs)):
            if obs[a][1] != obs[b][1]:
                return obs[a][0], obs[b][0]
    return None


def rerun(item, seeds, tmp, tag):
    d = os.path.join(tmp, tag)
    cells, _, _, failures = explore([item], seeds, 1, min(16, len(seeds)), 900, d)
    return cells, failures


def run_context(jobs, item_id, kind, tmp, tag):
    """Re-run complete interpreter contexts.  jobs: [{hashseed, order_seed, items:[item dicts], rep}] ->
    list of digests of (item_id, kind) as observed by each job in its repetition `rep`."""
    d = os.path.join(tmp, tag)
    os.makedirs(d, exist_ok=True)
    launch_jobs = []
    for k, job in enumerate(jobs):
        mpath = os.path.join(d, "manifest-%d.json" % k)
        with open(mpath, "w") as f:
            json.dump({"tmp": d, "items": job["items"]}, f)
        extra = {"VERIF_C14_STOP_AFTER": "%s:%d" % (item_id, job["rep"])}
        if job.get("order_seed") is not None:
            extra["VERIF_C14_ORDER"] = str(job["order_seed"])
        launch_jobs.append(("context-%d" % k, job["hashseed"], mpath, os.path.join(d, "out-%d.txt" % k), extra))
    failures = launch(launch_jobs, min(16, len(launch_jobs)), 1800, d)
    digests = []
    for (tagk, hs, mpath, opath, extra), job in zip(launch_jobs, jobs):
        got = None
        if os.path.exists(opath):
            rows, _ = parse(opath)
            for it, kd, rep, h, size, nt in rows:
                if it == item_id and kd == kind and rep == job["rep"]:
                    got = h
        digests.append(got)
    return digests, failures


def minimise(item, kind, seeds_pair, tmp):
    """Shrink a generated structure while the two interpreters still disagree on `kind`."""
    if item["type"] != "bpseq" or item.get("only"):
        return item, 0  # (a dear listing is reported as it is: every shrinking step would cost minutes)
    best = item
    tried = 0
    improved = True
    while improved and tried < 24:
        improved = False
        for t in shrink.structure_candidates(best["triples"]):
            if not t:
                continue
            tried += 1
            cand = dict(best, triples=t)
            cells, failures = rerun(cand, list(seeds_pair), tmp, "min-%d" % tried)
            m = cells.get((cand["id"], kind), {})
            if not failures and len(set(m.values())) > 1:
                best = cand
                improved = True
                break
            if tried >= 24:
                break
    return best, tried


def check(tier, seed, workers):
    t0 = time.time()
    plan = PLAN[tier]
    tmp = os.path.join(runner.base_tmp(), "c14")
    seeds = hashseeds(tier, seed)
    items = (corpus_items(tier) + tool_items(tier) + generated_items(tier, seed) + adapter_generated_items(tier, seed)
             + derived_items(tier, seed) + unifier_generated_items(tier, seed) + pairfuzz_items(tier, seed)
             + crossmap_items(tier, seed))
    timeout = float(os.environ.get("VERIF_BUDGET_S") or 0) * 4 or plan["timeout"]
    context = {}
    # the dear listings run in interpreters of their own, from now until the other passes are done
    deep = deep_items(tier, seed)
    deep_seeds = [str((seed * 1009 + 5000 + j) % 4294967296) for j in range(plan.get("deep_hashseeds", 0))]
    deep_result = {}
    deep_thread = None
    if deep and deep_seeds:
        import threading

        def run_deep():
            deep_result["out"] = explore(deep, deep_seeds, len(deep), len(deep) * len(deep_seeds), max(timeout, 1500),
                                         os.path.join(tmp, "deep"))

        deep_thread = threading.Thread(target=run_deep)
        deep_thread.start()
    cells, nontrivial, rows_total, failures = explore(items, seeds, plan["shards"], workers, timeout, tmp,
                                                     shuffle_seed=seed, context=context)
    # more hash seeds on the cheap part of the workload (small files, tools, generated structures): a
    # container order that only matters for a minority of seeds needs many seeds to be seen
    light_seeds = [str((seed * 1009 + 1000 + j) % 4294967296) for j in range(plan.get("light_hashseeds", 0))]
    light_items = [it for it in items if it["cost"] <= plan.get("light_max_cost", 0) or it["type"] != "file"]
    # the extra seeds are for hash-order effects in cheap computations: the dear library-level outputs and every
    # second generated-annotation run stay with the main pass
    light_items = [dict(it, lib=False) if it["type"] == "file" else it for it in light_items
                   if not (it["type"] == "adapter_gen" and int(it["id"].split("/")[1]) % 2) and it["type"] != "derived"]
    if light_seeds and light_items and not failures:
        ctx2 = {}
        c2, nt2, rows2, failures = explore(light_items, light_seeds, 1, workers, timeout, os.path.join(tmp, "light"),
                                           shuffle_seed=seed + 1, context=ctx2)
        for key, m in c2.items():
            cells.setdefault(key, {}).update(m)
            nontrivial[key] = nontrivial.get(key, False) or nt2.get(key, False)
        for (hs, b), c in ctx2.items():
            context[(hs, "light-%d" % b)] = c
        rows_total += rows2
    if deep_thread is not None:
        deep_thread.join()
        c3, nt3, rows3, f3 = deep_result.get("out") or ({}, {}, 0, ["deep pass: no result"])
        for key, m in c3.items():
            cells.setdefault(key, {}).update(m)
            nontrivial[key] = nontrivial.get(key, False) or nt3.get(key, False)
        rows_total += rows3
        failures = list(failures) + list(f3)
        items = items + deep
    if failures:
        print("HARNESS-ERROR: C14 child interpreters failed: %s" % "; ".join(failures[:4]))
        return 2
    violations = find_violations(cells)
    known = runner.load_known(NAME)
    new = 0
    reported = set()
    unconfirmed = []
    for v in violations:
        key = json.dumps(v["signature"])
        if key in reported:
            continue
        reported.add(key)
        hit = [text for ksig, text in known if ksig == v["signature"]]
        if hit:
            print("KNOWN-FINDING: property=%s %s" % (NAME, hit[0]))
            continue
        item = [it for it in items if it["id"] == v["item"]][0]
        pair = pick_pair(cells[(v["item"], v["kind"])])
        pair_seeds = sorted({pair[0][0], pair[1][0]})
        if "random" in pair_seeds or len(pair_seeds) == 1:
            # find a numeric pair that reproduces it, so that the replay is exact
            probe = [str(k) for k in range(16)]
            c2, _ = rerun(item, probe, tmp, "probe")
            p2 = pick_pair({k: h for k, h in c2.get((v["item"], v["kind"]), {}).items()})
            if p2:
                pair = p2
                pair_seeds = sorted({p2[0][0], p2[1][0]})
        small, tried = minimise(item, v["kind"], pair_seeds, tmp) if len(pair_seeds) == 2 else (item, 0)
        for attempt in range(3):
            c3, _ = rerun(small, pair_seeds, tmp, "final-%d" % attempt)
            m3 = c3.get((small["id"], v["kind"]), {})
            if len(set(m3.values())) > 1:
                break
        doc = {"property": NAME, "engine": NAME, "seed": seed, "tier": tier, "item": small, "kind": v["kind"],
               "hashseeds": pair_seeds, "clause": v["clause"], "signature": v["signature"],
               "digests": {"%s/%d" % k: h for k, h in sorted(m3.items())},
               "minimisation_executions": tried,
               "observed_in_batch": v["digests"]}
        if len(set(m3.values())) > 1:
            # does the output follow the hash seed alone?  Re-run the same two interpreters: if the digests move,
            # the difference comes from something the simulator can sample but not steer (object addresses);
            # the replay file then promises a difference, not particular digests.
            c4, _ = rerun(small, pair_seeds, tmp, "final-again")
            m4 = c4.get((small["id"], v["kind"]), {})
            if {"%s/%d" % k: h for k, h in sorted(m4.items())} != doc["digests"]:
                doc["exact"] = False
                doc["clause"] = v["clause"] = "identical-across-fresh-processes"
                doc["signature"] = ["identical-across-fresh-processes", v["kind"].split("@")[0]]
                v = dict(v, signature=doc["signature"])
                hit = [text for ksig, text in known if ksig == v["signature"]]
                if hit:
                    print("KNOWN-FINDING: property=%s %s" % (NAME, hit[0]))
                    continue
        if len(set(m3.values())) <= 1:
            # alone, the item is stable: the difference needs what ran before it in the same interpreter.
            # Replay the two complete interpreter contexts (same hash seed, same visiting order, stopped
            # right after the item) instead.
            m = cells[(v["item"], v["kind"])]
            (hs_a, rep_a), (hs_b, rep_b) = pick_pair(m)
            by_id = {it["id"]: it for it in items}
            jobs = []
            for hs, rep in ((hs_a, rep_a), (hs_b, rep_b)):
                ctx = [c for (h, b), c in context.items() if h == hs and v["item"] in c["items"]][0]
                jobs.append({"hashseed": hs, "order_seed": ctx["order_seed"], "rep": rep,
                             "items": [by_id[i] for i in ctx["items"]]})
            digests, fails = run_context(jobs, v["item"], v["kind"], tmp, "context")
            doc = {"property": NAME, "engine": NAME, "seed": seed, "tier": tier, "mode": "context",
                   "item_id": v["item"], "kind": v["kind"], "jobs": jobs, "clause": "identical-whatever-ran-before-in-the-process",
                   "signature": ["identical-whatever-ran-before-in-the-process", v["kind"].split("@")[0]],
                   "digests": digests, "observed_in_batch": v["digests"]}
            v = dict(v, clause=doc["clause"], signature=doc["signature"])
            hit = [text for ksig, text in known if ksig == v["signature"]]
            if hit:
                print("KNOWN-FINDING: property=%s %s" % (NAME, hit[0]))
                continue
        path = runner.write_replay(NAME, seed, v["item"].replace("/", "_") + "-" + v["kind"].replace("@", "_"), doc)
        ok, outp = runner.confirm_replay(path, timeout=1800)
        if not ok:
            unconfirmed.append((path, outp[-1500:]))
            continue
        print("VIOLATION property=%s replay=%s" % (NAME, path))
        print("  clause=%s item=%s kind=%s hashseeds=%s" % (doc["clause"], v["item"], v["kind"], doc.get("hashseeds") or [j["hashseed"] for j in doc["jobs"]]))
        new += 1
        if new >= 5:
            break
    wall = time.time() - t0
    nt_cells = sum(1 for k, v in nontrivial.items() if v)
    multi = sum(1 for (item, kind), v in nontrivial.items() if v and kind.startswith("all_dot_brackets"))
    kinds = sorted({k for _, k in cells})
    samples = []
    for it in items[:2] + [x for x in items if x["type"] == "bpseq"][:3] + [x for x in items if x["type"] == "adapter_gen"][:2] + [x for x in items if x["type"] == "derived"][:2]:
        if it["type"] == "adapter_gen":
            samples.append({k: it[k] for k in ("id", "path", "gen_seed", "find_gaps", "flag")})
        elif it["type"] == "derived":
            samples.append({k: it[k] for k in ("id", "source", "variant", "gen_seed")})
        elif it["type"] == "file":
            samples.append({"id": it["id"], "path": it["path"], "find_gaps": it["find_gaps"]})
        else:
            samples.append({"id": it["id"], "structure_fcfs": structures.structure_string(it["triples"]),
                            "solvers": it["solvers"]})
    coverage = {
        "evaluations": rows_total,
        "distinct_nontrivial": nt_cells,
        "rule": "one evaluation = one output (item, output kind) computed by one interpreter in one repetition and "
                "digested. Distinct = distinct (item, output kind) cells; non-trivial = for the all-dot-brackets kind "
                "the list has >= 2 members (only then can a hash-ordered container reorder it), for every other kind "
                "the output is non-empty and the structure has at least one base pair. Every cell is computed by every "
                "interpreter twice; all digests of a cell must be equal.",
        "samples": samples,
        "exhaustive": False,
        "interpreters": len(seeds) * plan["shards"] + len(light_seeds),
        "hash_seeds": seeds,
        "extra_hash_seeds_on_light_items": {"seeds": len(light_seeds), "items": len(light_items)},
        "repetitions_in_process": 2,
        "visiting_order": "every interpreter visits its items in its own seeded order, and in another order the second "
                          "time, so that dependence on what ran before in the process shows up as a digest difference; "
                          "such a difference is replayed by re-running the two complete interpreter contexts",
        "items": {"corpus_file_x_gap_setting": sum(1 for x in items if x["type"] == "file"),
                  "other_command_line_tools": sum(1 for x in items if x["type"] == "tool"),
                  "generated_structures": sum(1 for x in items if x["type"] == "bpseq" and not x.get("only")),
                  "dear_listings_one_group_of_ten_stems": {"items": len(deep), "interpreters_each": len(deep_seeds),
                                                           "computed": "all_dot_brackets, once per interpreter"},
                  "adapter_runs_with_generated_conflicting_annotations": sum(1 for x in items if x["type"] == "adapter_gen"),
                  "derived_pdb_files_altloc_icode_models_duplicates": sum(1 for x in items if x["type"] == "derived")},
        "cells": len(cells),
        "cells_all_dot_brackets_with_2_or_more_members": multi,
        "output_kinds": kinds,
        "cells_differing": len(violations),
        "runs_per_hour": int(len(seeds) * plan["shards"] / max(wall, 1e-6) * 3600),
        "simulated_time": "none: no anchored code path reads a clock",
        "fault_kinds_fired": {"hashseed.numeric": len(seeds) - 1, "hashseed.random": 1, "fresh_interpreter": len(seeds) * plan["shards"],
                              "loglevel.DEBUG": sum(1 for h in seeds + light_seeds if loglevel_of(h) == "DEBUG"),
                              "loglevel.INFO": sum(1 for h in seeds + light_seeds if loglevel_of(h) == "INFO")},
        "real_vs_stub": {"real": ["everything: rnapolis, pulp, the bundled CBC binary, mmcif, pandas, orjson"], "stub": []},
    }
    runner.write_evidence(NAME, tier, seed, LEVEL, coverage, wall, len(violations), ASSUMPTIONS)
    print("interpreters=%d cells=%d nontrivial=%d evaluations=%d wall=%.1fs differing=%d new=%d" % (
        len(seeds) * plan["shards"] + len(light_seeds), len(cells), nt_cells, rows_total, wall, len(violations), new))
    for path, outp in unconfirmed:
        print("NOTE: a differing cell did not replay in fresh interpreters (%s)" % path)
    if new:
        return 1
    if unconfirmed:
        # differences were seen but none could be reproduced: neither a pass nor a verdict
        print("HARNESS-ERROR: property=C14 differing cells were observed but none replayed\n%s" % unconfirmed[0][1])
        return 2
    return 0


def replay(doc, path):
    tmp = os.path.join(runner.base_tmp(), "c14-replay")
    if doc.get("mode") == "context":
        digests, failures = run_context(doc["jobs"], doc["item_id"], doc["kind"], tmp, "replay")
        if failures or None in digests:
            print("HARNESS-ERROR: replay children failed: %s %s" % (failures[:2], digests))
            return 2
        if len(set(digests)) <= 1:
            print("REPLAY-NOT-REPRODUCED property=C14 file=%s" % path)
            return 0
        if doc.get("digests") and digests != doc["digests"]:
            print("REPLAY-DIGEST-MISMATCH property=C14 file=%s %s vs %s" % (path, digests, doc["digests"]))
            return 2
        print("REPLAY-REPRODUCED property=C14 clause=%s item=%s kind=%s" % (doc["clause"], doc["item_id"], doc["kind"]))
        for job, h in zip(doc["jobs"], digests):
            print("  hashseed %s order %s rep %d (%d items in the interpreter) -> %s" % (
                job["hashseed"], job["order_seed"], job["rep"], len(job["items"]), h[:16]))
        print("VIOLATION property=C14 replay=%s" % path)
        return 1
    item = doc["item"]
    attempts = 1 if doc.get("exact", True) else 5
    for attempt in range(attempts):
        cells, failures = rerun(item, doc["hashseeds"], tmp, "replay-%d" % attempt)
        if failures:
            print("HARNESS-ERROR: replay children failed: %s" % failures[:2])
            return 2
        m = cells.get((item["id"], doc["kind"]), {})
        got = {"%s/%d" % k: h for k, h in sorted(m.items())}
        if len(set(m.values())) > 1:
            break
    if len(set(m.values())) <= 1:
        print("REPLAY-NOT-REPRODUCED property=C14 file=%s" % path)
        return 0
    if doc.get("digests") and got != doc["digests"]:
        if doc.get("exact", True):
            print("REPLAY-DIGEST-MISMATCH property=C14 file=%s %s vs %s" % (path, got, doc["digests"]))
            return 2
        print("  note: the outputs differ again, but not with the recorded digests: this output does not follow the "
              "hash seed alone (object addresses / per-process state), which the simulator can sample but not steer")
    print("REPLAY-REPRODUCED property=C14 clause=%s item=%s kind=%s" % (doc["clause"], item["id"], doc["kind"]))
    for k, h in got.items():
        print("  hashseed/rep %s -> %s" % (k, h[:16]))
    print("VIOLATION property=C14 replay=%s" % path)
    return 1
