"""Batch runner: seeded runs over a fork pool, merged in run-index order, with minimisation, replay
confirmation in a fresh interpreter, known-findings handling and the evidence file.

Exit codes: 0 held on everything explored; 1 VIOLATION (an oracle clause failed on real code and
replayed); 2 HARNESS-ERROR (anything wrong with the machinery itself - never a pass, never a
violation).
"""
import atexit
import concurrent.futures as cf
import faulthandler
import json
import multiprocessing
import os
import shutil
import subprocess
import sys
import tempfile
import time

from . import rng

VERIF = os.path.dirname(os.path.dirname(os.path.abspath(__file__)))
EVIDENCE_DIR = os.environ.get("VERIF_EVIDENCE_DIR") or os.path.join(VERIF, "evidence")
REPLAY_DIR = os.environ.get("VERIF_REPLAY_DIR") or os.path.join(VERIF, "replays")
KNOWN = os.path.join(VERIF, "known-findings.txt")

_BASE_TMP = None


def base_tmp():
    """Scratch root for this process tree (under /dev/shm when present), removed at exit."""
    global _BASE_TMP
    if _BASE_TMP is None:
        root = "/dev/shm" if os.path.isdir("/dev/shm") and os.access("/dev/shm", os.W_OK) else None
        _BASE_TMP = tempfile.mkdtemp(prefix="rnapolis-verif-", dir=root)
        atexit.register(cleanup_tmp, os.getpid())
    return _BASE_TMP


def cleanup_tmp(owner):
    if os.getpid() == owner and _BASE_TMP and os.path.isdir(_BASE_TMP):
        shutil.rmtree(_BASE_TMP, ignore_errors=True)


_WORKER_TMP = {}


def worker_tmp():
    pid = os.getpid()
    d = _WORKER_TMP.get(pid)
    if d is None:
        d = os.path.join(base_tmp(), "w%d" % pid)
        os.makedirs(d, exist_ok=True)
        _WORKER_TMP.clear()
        _WORKER_TMP[pid] = d
    return d


class Harness(Exception):
    pass


class RunDied(Harness):
    """A simulated run was killed (per-run time limit) or crashed the interpreter."""


RUN_TIMEOUT_S = int(os.environ.get("VERIF_RUN_TIMEOUT_S", "150"))


# ------------------------------------------------------------------------------------------------
# known findings
# ------------------------------------------------------------------------------------------------


def load_known(prop):
    """Lines: 'open: property=<id> sig=<json> <text>' suppress exactly that signature;
    'fixed: ...' lines suppress nothing."""
    out = []
    if not os.path.exists(KNOWN):
        return out
    with open(KNOWN) as f:
        for line in f:
            line = line.strip()
            if not line.startswith("open:"):
                continue
            rest = line[len("open:"):].strip()
            if not rest.startswith("property=%s " % prop):
                continue
            rest = rest[len("property=%s " % prop):]
            if not rest.startswith("sig="):
                continue
            dec = json.JSONDecoder()
            try:
                sig, end = dec.raw_decode(rest[4:])
            except ValueError:
                continue
            out.append((sig, rest[4 + end:].strip()))
    return out


# ------------------------------------------------------------------------------------------------
# worker side
# ------------------------------------------------------------------------------------------------

_ENGINES = {}


def get_engine(name):
    if name not in _ENGINES:
        import importlib

        _ENGINES[name] = importlib.import_module("sim.engine_" + name.lower())
    return _ENGINES[name]


def isolated(fn, *args):
    """Run fn(*args) in a forked child and return its (picklable) result.  Every simulated run starts
    from the same pristine module state (whatever the code under test keeps in module-level or class-level
    variables cannot leak from one run into the next), which is what makes one seed one repeatable
    execution."""
    import pickle

    if os.environ.get("VERIF_NO_FORK") == "1":
        return fn(*args)
    r, w = os.pipe()
    pid = os.fork()
    if pid == 0:
        code = 0
        try:
            os.close(r)
            import signal

            signal.signal(signal.SIGALRM, signal.SIG_DFL)
            signal.alarm(RUN_TIMEOUT_S)  # a run that takes this long dies and is counted as discarded
            try:
                payload = pickle.dumps(("ok", fn(*args)))
            except BaseException as e:  # noqa: BLE001
                import traceback

                payload = pickle.dumps(("err", "%s: %s\n%s" % (type(e).__name__, e, traceback.format_exc()[-1500:])))
            with os.fdopen(w, "wb") as f:
                f.write(payload)
        except BaseException:  # noqa: BLE001
            code = 3
        finally:
            os._exit(code)
    os.close(w)
    with os.fdopen(r, "rb") as f:
        data = f.read()
    _, status = os.waitpid(pid, 0)
    if not data:
        raise RunDied("isolated run died without a result (wait status %d)" % status)
    kind, value = pickle.loads(data)
    if kind == "err":
        raise Harness("isolated run raised " + value)
    return value


# ------------------------------------------------------------------------------------------------
# the optimised interpreter (python -O) as a world dimension
# ------------------------------------------------------------------------------------------------

_OPT = {}


def _opt_helper():
    """This process' `python -O` helper (started on first use, ends when this process does)."""
    import struct  # noqa: F401

    pid = os.getpid()
    h = _OPT.get(pid)
    if h is None or h.poll() is not None:
        from . import opt_helper

        env = dict(os.environ)
        env["PYTHONHASHSEED"] = "0"
        env["VERIF_KEEP_HASHSEED"] = "1"
        env.pop("PYTHONOPTIMIZE", None)
        env["TMPDIR"] = base_tmp()
        h = subprocess.Popen([sys.executable, "-O", os.path.abspath(opt_helper.__file__)], stdin=subprocess.PIPE,
                             stdout=subprocess.PIPE, env=env, cwd=VERIF)
        hello = opt_helper._read(h.stdout)
        if not hello or hello[0] != "hello" or hello[1] < 1:
            raise Harness("the optimised-interpreter helper did not start: %r" % (hello,))
        _OPT.clear()
        _OPT[pid] = h
        def _stop(proc=h):
            # closing its stdin lets the helper leave through its normal exit path (and remove its scratch directory)
            try:
                proc.stdin.close()
                proc.wait(timeout=10)
            except Exception:  # noqa: BLE001
                proc.kill()

        atexit.register(_stop)
    return h


def in_optimised_interpreter(request):
    """Execute ("run_index", engine, seed, tier, i) or ("execute_run", engine, run) under `python -O`."""
    from . import opt_helper

    h = _opt_helper()
    opt_helper._write(h.stdin, request)
    reply = opt_helper._read(h.stdout)
    if reply is None:
        raise RunDied("the optimised-interpreter helper went away")
    if reply[0] == "died":
        raise RunDied(reply[1])
    if reply[0] == "err":
        raise Harness("optimised-interpreter run raised " + reply[1])
    return reply[1]


def world_is_optimised(engine_name, seed, tier, i):
    """About one run index in sixteen lives in an interpreter started with -O (a pure function of the index)."""
    import hashlib

    h = hashlib.sha256(("pyopt|%s|%s|%s|%d" % (engine_name, seed, tier, i)).encode()).digest()
    return h[0] % 16 == 0


def execute_run_any(eng, run, tmpdir):
    """execute_run in a forked child - of this process, or of the -O helper when the run's world is optimised."""
    if run.get("pyopt") and not sys.flags.optimize:
        return in_optimised_interpreter(("execute_run", eng.NAME, run))
    return isolated(eng.execute_run, run, tmpdir)


_PRELOADED = set()


def preload(eng, tier):
    key = (eng.NAME, tier, os.getpid())
    if key not in _PRELOADED:
        _PRELOADED.add(key)
        if hasattr(eng, "preload"):
            eng.preload(tier)


def _work(engine_name, tier, seed, start, end, hard_timeout):
    faulthandler.dump_traceback_later(hard_timeout, exit=True)
    try:
        import logging

        logging.disable(logging.CRITICAL)
        eng = get_engine(engine_name)
        preload(eng, tier)
        out = []
        for i in range(start, end):
            try:
                if world_is_optimised(engine_name, seed, tier, i) and not sys.flags.optimize:
                    res = in_optimised_interpreter(("run_index", engine_name, seed, tier, i))
                    res["pyopt"] = True
                    for v in res.get("violations", []):
                        if isinstance(v.get("run"), dict):
                            v["run"]["pyopt"] = True
                    if isinstance(res.get("run"), dict):
                        res["run"]["pyopt"] = True
                    res.setdefault("counters", {})["interpreter.python_-O"] = 1
                    out.append(res)
                    continue
                out.append(isolated(eng.run_index, seed, tier, i, worker_tmp()))
            except RunDied as e:
                if not hasattr(eng, "discard_result"):
                    raise
                out.append(eng.discard_result(i, str(e)))
        return out
    finally:
        faulthandler.cancel_dump_traceback_later()


STOP_AFTER_VIOLATING_RUNS = 60
STOP_AFTER_SECONDS_WITH_VIOLATIONS = 300
STOPPED_EARLY = []


def run_pool(engine_name, tier, seed, total, chunk, workers, budget_s, hard_timeout=900):
    """Execute run indexes [0, total) (or until budget_s elapses; `total` may be None for open-ended
    thorough exploration).  Results are returned sorted by run index."""
    ctx = multiprocessing.get_context("fork")
    results = []
    t0 = time.time()
    next_start = 0
    pending = {}
    base_tmp()  # created before the fork: the workers inherit it, and this process removes it at exit
    with cf.ProcessPoolExecutor(max_workers=workers, mp_context=ctx) as pool:
        try:
            def can_submit():
                if total is not None and next_start >= total:
                    return False
                # a tree that violates the property usually does so in very many runs, and each may be slow (every
                # one is minimised later): once enough violating runs are in hand - or some are and the batch has
                # been going for minutes - no new work is started.  Never taken on a tree where the property holds.
                bad = sum(1 for r in results if r.get("violations"))
                if bad >= STOP_AFTER_VIOLATING_RUNS or (bad and time.time() - t0 > STOP_AFTER_SECONDS_WITH_VIOLATIONS):
                    STOPPED_EARLY.append((bad, len(results)))
                    return False
                return budget_s is None or time.time() - t0 < budget_s

            while True:
                while len(pending) < workers * 2 and can_submit():
                    end = next_start + chunk if total is None else min(total, next_start + chunk)
                    fut = pool.submit(_work, engine_name, tier, seed, next_start, end, hard_timeout)
                    pending[fut] = (next_start, end)
                    next_start = end
                if not pending:
                    break
                done, _ = cf.wait(list(pending), timeout=hard_timeout, return_when=cf.FIRST_COMPLETED)
                if not done:
                    raise Harness("worker timeout after %ss on ranges %s" % (hard_timeout, sorted(pending.values())))
                for fut in done:
                    rngpair = pending.pop(fut)
                    try:
                        results.extend(fut.result())
                    except Exception as e:  # BrokenProcessPool, HarnessError in a worker, ...
                        raise Harness("worker failed on range %s: %s: %s" % (rngpair, type(e).__name__, e))
        except BaseException:
            for fut in pending:
                fut.cancel()
            pool.shutdown(wait=False, cancel_futures=True)
            raise
    results.sort(key=lambda r: r["index"])
    return results


# ------------------------------------------------------------------------------------------------
# reporting
# ------------------------------------------------------------------------------------------------


def write_evidence(prop, tier, seed, level, coverage, wall_s, violations, assumptions):
    os.makedirs(EVIDENCE_DIR, exist_ok=True)
    doc = {
        "property_id": prop,
        "tier": tier,
        "seed": int(seed),
        "level": level,
        "coverage": coverage,
        "assumptions": assumptions,
        "wall_s": round(wall_s, 3),
        "violations": int(violations),
    }
    path = os.path.join(EVIDENCE_DIR, prop + ".json")
    tmp = path + ".tmp"
    with open(tmp, "w") as f:
        json.dump(doc, f, indent=1, sort_keys=True, default=str)
        f.write("\n")
    os.replace(tmp, path)
    return path


def write_replay(prop, seed, index, doc):
    os.makedirs(REPLAY_DIR, exist_ok=True)
    path = os.path.join(REPLAY_DIR, "%s-seed%s-run%s.json" % (prop, seed, index))
    with open(path, "w") as f:
        json.dump(doc, f, indent=1, sort_keys=True)
        f.write("\n")
    return path


def confirm_replay(path, timeout=300):
    """Replay in a fresh interpreter; returns (reproduced, output)."""
    env = dict(os.environ)
    env["PYTHONHASHSEED"] = "0"
    argv = [sys.executable]
    try:
        with open(path) as f:
            if json.load(f).get("run", {}).get("pyopt"):
                argv.append("-O")  # the violating world is an interpreter started with -O
    except (OSError, ValueError, AttributeError):
        pass
    p = subprocess.run(argv + [os.path.join(VERIF, "simcheck.py"), "--replay", path],
                       capture_output=True, text=True, timeout=timeout, env=env)
    return p.returncode == 1 and "REPLAY-REPRODUCED" in p.stdout, p.stdout + p.stderr


def minimise(eng, run, violation, tmpdir, max_exec=400, max_seconds=75):
    """Greedy delta debugging: keep a candidate only while the same violation class persists.  Bounded by a number
    of executions and by wall time (a slow violating tree must still be reported well inside the command's
    timeout; a less minimal replay file is still a replay file)."""
    target = eng.signature(violation, run)
    best_run, best_v = run, violation
    executed = 0
    improved = True
    t0 = time.time()
    while improved and executed < max_exec and time.time() - t0 < max_seconds:
        improved = False
        for cand in eng.shrink_candidates(best_run, best_v):
            executed += 1
            if executed > max_exec or time.time() - t0 > max_seconds:
                break
            try:
                res = execute_run_any(eng, cand, tmpdir)
            except Exception:
                continue
            same = [v for v in res["violations"] if eng.signature(v, cand) == target]
            if same:
                best_run, best_v = cand, same[0]
                improved = True
                break
    return best_run, best_v, executed


def report(prop, tier, seed, eng, results, tmpdir):
    """Group violations by signature, match against known findings, minimise, write + confirm replay
    files.  Returns (n_new_violations, lines printed, harness_error or None)."""
    known = load_known(prop)
    by_sig = {}
    for r in results:
        for v in r.get("violations", []):
            key = json.dumps(v["signature"], sort_keys=True)
            if key not in by_sig:
                by_sig[key] = (r, v)
    new = 0
    unconfirmed = []
    total = sum(len(r.get("violations", [])) for r in results)
    t_report = time.time()
    for key in sorted(by_sig):
        if new and time.time() - t_report > 240:
            break  # enough said: at least one violation is reported and replayable
        r, v = by_sig[key]
        sig = v["signature"]
        hit = [text for ksig, text in known if ksig == sig]
        if hit:
            print("KNOWN-FINDING: property=%s %s" % (prop, hit[0]))
            continue
        run = v.get("run") or r.get("run") or eng.rebuild_run(seed, tier, r["index"], tmpdir)
        v = {k: x for k, x in v.items() if k != "run"}
        if r.get("pyopt"):
            run = dict(run, pyopt=True)
        small, sv, n_exec = minimise(eng, run, v, tmpdir)
        sv = {k: x for k, x in sv.items() if k != "run"}
        res = execute_run_any(eng, small, tmpdir)
        doc = {
            "property": prop,
            "engine": eng.NAME,
            "seed": int(seed),
            "tier": tier,
            "run_index": r["index"],
            "run": small,
            "violation": sv,
            "signature": sig,
            "event_digest": res.get("digest"),
            "minimisation_executions": n_exec,
            "original_steps": eng.size_of(run),
            "minimised_steps": eng.size_of(small),
        }
        path = write_replay(prop, seed, r["index"], doc)
        ok, out = confirm_replay(path)
        if not ok:
            unconfirmed.append((path, out[-2000:]))
            print("NOTE: property=%s a violation did not replay in a fresh interpreter (%s)" % (prop, path))
            continue
        print("VIOLATION property=%s replay=%s" % (prop, path))
        print("  clause=%s expected=%s actual=%s" % (sv["clause"], json.dumps(sv.get("expected"))[:300], json.dumps(sv.get("actual"))[:300]))
        new += 1
        if new >= 5:
            break
    if unconfirmed and not new:
        # something failed an oracle clause but could not be reproduced from its replay file: neither a pass
        # nor a verdict
        print("HARNESS-ERROR: property=%s violations were observed but none replayed\n%s" % (prop, unconfirmed[0][1]))
        return new, "replay-mismatch"
    return new, None
