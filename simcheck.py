#!/venv/bin/python
"""Entry point of the deterministic-simulation checks for tzok/rnapolis-py.

  simcheck.py --property C13 --tier quick|thorough      run a check (honours VERIF_SEED, VERIF_BUDGET_S,
                                                          VERIF_WORKERS)
  simcheck.py --replay FILE                              re-execute a replay file (exit 1 = reproduced)
  simcheck.py --selftest                                 determinism / stub-fidelity self-test (setup_cmd)

Exit 0: property held on everything explored.  Exit 1: 'VIOLATION property=<id> replay=<path>'.
Exit 2: 'HARNESS-ERROR ...' (machinery problem: never a pass, never a violation).
"""
import os
import sys

VERIF = os.path.dirname(os.path.abspath(__file__))
REPO_SRC = os.environ.get("VERIF_REPO_SRC", "/repo/src")


def _reexec_with_fixed_hashseed():
    """Set and dict iteration inside the *harness* must not depend on the interpreter's hash seed.
    (The code under test is exposed to varying hash seeds on purpose by the C14 engine, which spawns
    its own interpreters.)"""
    if os.environ.get("VERIF_KEEP_HASHSEED") == "1":
        return
    if os.environ.get("PYTHONHASHSEED") != "0":
        env = dict(os.environ)
        env["PYTHONHASHSEED"] = "0"
        os.execve(sys.executable, [sys.executable] + sys.argv, env)


def main(argv):
    import argparse

    ap = argparse.ArgumentParser()
    ap.add_argument("--property")
    ap.add_argument("--tier", default=os.environ.get("VERIF_TIER", "quick"), choices=["quick", "thorough"])
    ap.add_argument("--replay")
    ap.add_argument("--selftest", action="store_true")
    ap.add_argument("--digests", nargs=2, metavar=("PROPERTY", "N"), help=argparse.SUPPRESS)
    ap.add_argument("--runs", type=int, default=None, help="override the number of runs (debugging)")
    args = ap.parse_args(argv)

    _reexec_with_fixed_hashseed()
    sys.path.insert(0, REPO_SRC)
    sys.path.insert(0, VERIF)
    os.environ.pop("TMP", None)

    from sim import cli

    if args.replay:
        return cli.replay(args.replay)
    if args.selftest:
        return cli.selftest()
    if args.digests:
        for d in cli.digests(args.digests[0], "quick", 0, int(args.digests[1])):
            print("DIGEST " + d)
        return 0
    if not args.property:
        ap.error("--property, --replay or --selftest required")
    return cli.check(args.property, args.tier, runs_override=args.runs)


if __name__ == "__main__":
    try:
        code = main(sys.argv[1:])
    except SystemExit:
        raise
    except BaseException as e:  # noqa: BLE001
        import traceback

        traceback.print_exc()
        print("HARNESS-ERROR: %s: %s" % (type(e).__name__, e))
        code = 2
    sys.stdout.flush()
    sys.exit(code)
